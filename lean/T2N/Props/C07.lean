/-
  C07 — scanner and validator agree; at threshold 0 no number is left spelled out.

  Ingredient proved here: **failure atomicity of `apply`** — a word that is rejected leaves no trace in
  the number being built, so the finished number reflects accepted words only (this is exactly what the
  write-before-check of `DigitString::shift` broke: `billion billion` gave `1000000001 1000000000`).
  It is proved generically for every instruction of the instruction language (T2N/Lemmas/Act.lean,
  `Act.exec_atomic`, by induction on the instruction) and lifted to the interpreters.
-/
import T2N.Lemmas.Act
import T2N.Model.Langs
import T2N.Lemmas.LangFacts

namespace T2N.C07
open T2N

/-- the builders agree on everything but the blocking flags -/
def SameButFlags (b b' : DS) : Prop :=
  b'.rbuf = b.rbuf ∧ b'.lz = b.lz ∧ b'.frozen = b.frozen ∧ b'.marker = b.marker

/-- **C07 (instruction atomicity)**: every table entry of every language, in every builder state. -/
theorem C07_instruction_atomic (a : Act) (b : DS) (e : Err) (h : (a.exec b).1 = some e) :
    (a.exec b).2.1 = b := Act.exec_atomic a b e h

/-- the compound merge (`-` groups, split compounds) is atomic -/
theorem mergeGroup_atomic (b ds : DS) (cf : Bool) (m : Marker) (e : Err)
    (h : (mergeGroup b ds cf m).1 = some e) : (mergeGroup b ds cf m).2 = b := by
  unfold mergeGroup at *
  split
  · rfl
  · rename_i hc
    rw [if_neg hc] at h
    cases hp : b.put ds.rbuf.reverse with
    | mk r b' =>
      rw [hp] at h
      cases r with
      | some e' =>
        have := put_atomic b ds.rbuf.reverse e' (by rw [hp])
        rw [hp] at this
        simpa using this
      | none => simp at h

/-- **C07 (English)**: a rejected word leaves the builder exactly as it was. -/
theorem C07_apply_atomic_en (w : Word) (b : DS) (e : Err) (h : (En.apply w b).1 = some e) :
    (En.apply w b).2 = b := by
  unfold En.apply En.applyFuel at *
  by_cases hc : w.contains '-' = true
  · rw [if_pos hc] at h ⊢
    cases hg : execGroup (En.applyFuel 1) (splitOnChar '-' w) with
    | error e' => rfl
    | ok ds =>
      rw [hg] at h
      exact mergeGroup_atomic b ds false ds.marker e h
  · rw [if_neg hc] at h ⊢
    dsimp only at h ⊢
    cases hr : ((En.vocab.lookup (En.lemmatize w)).getD (.fail .nan)).exec b with
    | mk r rest =>
      cases rest with
      | mk b' tb =>
        rw [hr] at h
        dsimp only at h ⊢
        cases r with
        | none => simp at h; split at h <;> simp at h
        | some e' =>
          have := Act.exec_atomic _ b e' (by rw [hr])
          rw [hr] at this
          simpa using this

/-! ### all seven interpreters: a rejected word leaves no trace but (possibly) the blocking flags;
an accepted word always leaves a number (proofs in T2N/Lemmas/LangFacts.lean) -/

theorem C07_reject_leaves_no_trace_en (w : Word) (b : DS) (e : Err) (h : (En.apply w b).1 = some e) :
    T2N.SameButFlags b (En.apply w b).2 := En.apply_err_same w b e h
theorem C07_reject_leaves_no_trace_dec_en (w : Word) (b : DS) (e : Err) (h : (En.applyDecimal w b).1 = some e) :
    T2N.SameButFlags b (En.applyDecimal w b).2 := En.applyDecimal_err_same w b e h
theorem C07_reject_leaves_no_trace_fr (w : Word) (b : DS) (e : Err) (h : (Fr.apply w b).1 = some e) :
    T2N.SameButFlags b (Fr.apply w b).2 := Fr.apply_err_same w b e h
theorem C07_reject_leaves_no_trace_dec_fr (w : Word) (b : DS) (e : Err) (h : (Fr.applyDecimal w b).1 = some e) :
    T2N.SameButFlags b (Fr.applyDecimal w b).2 := Fr.applyDecimal_err_same w b e h
theorem C07_reject_leaves_no_trace_es (w : Word) (b : DS) (e : Err) (h : (Es.apply w b).1 = some e) :
    T2N.SameButFlags b (Es.apply w b).2 := Es.apply_err_same w b e h
theorem C07_reject_leaves_no_trace_dec_es (w : Word) (b : DS) (e : Err) (h : (Es.applyDecimal w b).1 = some e) :
    T2N.SameButFlags b (Es.applyDecimal w b).2 := Es.applyDecimal_err_same w b e h
theorem C07_reject_leaves_no_trace_pt (w : Word) (b : DS) (e : Err) (h : (Pt.apply w b).1 = some e) :
    T2N.SameButFlags b (Pt.apply w b).2 := Pt.apply_err_same w b e h
theorem C07_reject_leaves_no_trace_dec_pt (w : Word) (b : DS) (e : Err) (h : (Pt.applyDecimal w b).1 = some e) :
    T2N.SameButFlags b (Pt.applyDecimal w b).2 := Pt.applyDecimal_err_same w b e h
theorem C07_reject_leaves_no_trace_it (w : Word) (b : DS) (e : Err) (h : (It.apply w b).1 = some e) :
    T2N.SameButFlags b (It.apply w b).2 := It.apply_err_same w b e h
theorem C07_reject_leaves_no_trace_dec_it (w : Word) (b : DS) (e : Err) (h : (It.applyDecimal w b).1 = some e) :
    T2N.SameButFlags b (It.applyDecimal w b).2 := It.applyDecimal_err_same w b e h
theorem C07_reject_leaves_no_trace_de (w : Word) (b : DS) (e : Err) (h : (De.apply w b).1 = some e) :
    T2N.SameButFlags b (De.apply w b).2 := De.apply_err_same w b e h
theorem C07_reject_leaves_no_trace_dec_de (w : Word) (b : DS) (e : Err) (h : (De.applyDecimal w b).1 = some e) :
    T2N.SameButFlags b (De.applyDecimal w b).2 := De.applyDecimal_err_same w b e h
theorem C07_reject_leaves_no_trace_nl (w : Word) (b : DS) (e : Err) (h : (Nl.apply w b).1 = some e) :
    T2N.SameButFlags b (Nl.apply w b).2 := Nl.apply_err_same w b e h
theorem C07_reject_leaves_no_trace_dec_nl (w : Word) (b : DS) (e : Err) (h : (Nl.applyDecimal w b).1 = some e) :
    T2N.SameButFlags b (Nl.applyDecimal w b).2 := Nl.applyDecimal_err_same w b e h

/-! non-vacuity: `billion` is rejected on `1000000000` and leaves it unchanged (the pinned tree left
`1000000001`) -/
example : (En.apply w!"billion" { rbuf := [0,0,0,0,0,0,0,0,0,1] }) = (some .overlap, { rbuf := [0,0,0,0,0,0,0,0,0,1] }) := by
  decide

end T2N.C07
