/-
  C07 — scanner and validator agree; at threshold 0 no number is left spelled out.

  Ingredient proved here: **failure atomicity of `apply`** — a word that is rejected leaves no trace in
  the number being built, so the finished number reflects accepted words only (this is exactly what the
  write-before-check of `DigitString::shift` broke: `billion billion` gave `1000000001 1000000000`).
  It is proved generically for every instruction of the instruction language (T2N/Lemmas/Act.lean,
  `Act.exec_atomic`, by induction on the instruction) and lifted to the interpreters.

  First clause (second half of this file): every non-decimal occurrence reported by `find_numbers`
  validates on its own with the same digit text (`C07_span_validates`), for every language satisfying
  `LangAgree` (T2N/Lemmas/Agree.lean) — in particular the seven interpreters (`C07_langAgree_all`).
-/
import T2N.Lemmas.Act
import T2N.Model.Langs
import T2N.Lemmas.LangFacts
import T2N.Lemmas.Agree
import T2N.Lemmas.SimpleCC
import T2N.Lemmas.Lift

namespace T2N.C07
open T2N

/-- the builders agree on everything but the blocking flags -/
def SameButFlags (b b' : DS) : Prop :=
  b'.rbuf = b.rbuf ∧ b'.lz = b.lz ∧ b'.frozen = b.frozen ∧ b'.marker = b.marker

/-- **C07 (instruction atomicity)**: every table entry of every language, in every builder state. -/
theorem C07_instruction_atomic (a : Act) (b : DS) (e : Err) (h : (a.exec b).1 = some e) :
    (a.exec b).2.1 = b := Act.exec_atomic a b e h

/-- the compound merge (`-` groups, split compounds) is atomic -/
theorem mergeGroup_atomic (b ds : DS) (cf : Bool) (m : Marker) (e : Err)
    (h : (mergeGroup b ds cf m).1 = some e) : (mergeGroup b ds cf m).2 = b := by
  unfold mergeGroup at *
  split
  · rfl
  · rename_i hc
    rw [if_neg hc] at h
    cases hp : b.put ds.rbuf.reverse with
    | mk r b' =>
      rw [hp] at h
      cases r with
      | some e' =>
        have := put_atomic b ds.rbuf.reverse e' (by rw [hp])
        rw [hp] at this
        simpa using this
      | none => simp at h

/-- **C07 (English)**: a rejected word leaves the builder exactly as it was. -/
theorem C07_apply_atomic_en (w : Word) (b : DS) (e : Err) (h : (En.apply w b).1 = some e) :
    (En.apply w b).2 = b := by
  unfold En.apply En.applyFuel at *
  by_cases hc : w.contains '-' = true
  · rw [if_pos hc] at h ⊢
    cases hg : execGroup (En.applyFuel 1) (splitOnChar '-' w) with
    | error e' => rfl
    | ok ds =>
      rw [hg] at h
      exact mergeGroup_atomic b ds false ds.marker e h
  · rw [if_neg hc] at h ⊢
    dsimp only at h ⊢
    cases hr : ((En.vocab.lookup (En.lemmatize w)).getD (.fail .nan)).exec b with
    | mk r rest =>
      cases rest with
      | mk b' tb =>
        rw [hr] at h
        dsimp only at h ⊢
        cases r with
        | none => simp at h; split at h <;> simp at h
        | some e' =>
          have := Act.exec_atomic _ b e' (by rw [hr])
          rw [hr] at this
          simpa using this

/-! ### all seven interpreters: a rejected word leaves no trace but (possibly) the blocking flags;
an accepted word always leaves a number (proofs in T2N/Lemmas/LangFacts.lean) -/

theorem C07_reject_leaves_no_trace_en (w : Word) (b : DS) (e : Err) (h : (En.apply w b).1 = some e) :
    T2N.SameButFlags b (En.apply w b).2 := En.apply_err_same w b e h
theorem C07_reject_leaves_no_trace_dec_en (w : Word) (b : DS) (e : Err) (h : (En.applyDecimal w b).1 = some e) :
    T2N.SameButFlags b (En.applyDecimal w b).2 := En.applyDecimal_err_same w b e h
theorem C07_reject_leaves_no_trace_fr (w : Word) (b : DS) (e : Err) (h : (Fr.apply w b).1 = some e) :
    T2N.SameButFlags b (Fr.apply w b).2 := Fr.apply_err_same w b e h
theorem C07_reject_leaves_no_trace_dec_fr (w : Word) (b : DS) (e : Err) (h : (Fr.applyDecimal w b).1 = some e) :
    T2N.SameButFlags b (Fr.applyDecimal w b).2 := Fr.applyDecimal_err_same w b e h
theorem C07_reject_leaves_no_trace_es (w : Word) (b : DS) (e : Err) (h : (Es.apply w b).1 = some e) :
    T2N.SameButFlags b (Es.apply w b).2 := Es.apply_err_same w b e h
theorem C07_reject_leaves_no_trace_dec_es (w : Word) (b : DS) (e : Err) (h : (Es.applyDecimal w b).1 = some e) :
    T2N.SameButFlags b (Es.applyDecimal w b).2 := Es.applyDecimal_err_same w b e h
theorem C07_reject_leaves_no_trace_pt (w : Word) (b : DS) (e : Err) (h : (Pt.apply w b).1 = some e) :
    T2N.SameButFlags b (Pt.apply w b).2 := Pt.apply_err_same w b e h
theorem C07_reject_leaves_no_trace_dec_pt (w : Word) (b : DS) (e : Err) (h : (Pt.applyDecimal w b).1 = some e) :
    T2N.SameButFlags b (Pt.applyDecimal w b).2 := Pt.applyDecimal_err_same w b e h
theorem C07_reject_leaves_no_trace_it (w : Word) (b : DS) (e : Err) (h : (It.apply w b).1 = some e) :
    T2N.SameButFlags b (It.apply w b).2 := It.apply_err_same w b e h
theorem C07_reject_leaves_no_trace_dec_it (w : Word) (b : DS) (e : Err) (h : (It.applyDecimal w b).1 = some e) :
    T2N.SameButFlags b (It.applyDecimal w b).2 := It.applyDecimal_err_same w b e h
theorem C07_reject_leaves_no_trace_de (w : Word) (b : DS) (e : Err) (h : (De.apply w b).1 = some e) :
    T2N.SameButFlags b (De.apply w b).2 := De.apply_err_same w b e h
theorem C07_reject_leaves_no_trace_dec_de (w : Word) (b : DS) (e : Err) (h : (De.applyDecimal w b).1 = some e) :
    T2N.SameButFlags b (De.applyDecimal w b).2 := De.applyDecimal_err_same w b e h
theorem C07_reject_leaves_no_trace_nl (w : Word) (b : DS) (e : Err) (h : (Nl.apply w b).1 = some e) :
    T2N.SameButFlags b (Nl.apply w b).2 := Nl.apply_err_same w b e h
theorem C07_reject_leaves_no_trace_dec_nl (w : Word) (b : DS) (e : Err) (h : (Nl.applyDecimal w b).1 = some e) :
    T2N.SameButFlags b (Nl.applyDecimal w b).2 := Nl.applyDecimal_err_same w b e h

/-! non-vacuity: `billion` is rejected on `1000000000` and leaves it unchanged (the pinned tree left
`1000000001`) -/
example : (En.apply w!"billion" { rbuf := [0,0,0,0,0,0,0,0,0,1] }) = (some .overlap, { rbuf := [0,0,0,0,0,0,0,0,0,1] }) := by
  decide

/-! ## scanner and validator agree (first clause of C07)

"Whenever the scanner reports a non-decimal occurrence over a span of words, validating exactly those
words on their own yields the same digit text, so a span never contains a word that was rejected,
never ends on a dangling conjunction, and never carries digits that its own words do not produce."

The simulation proof is in T2N/Lemmas/Agree.lean (`AInv`, `push_agree`, `findNumbers_agree`), for every
language that satisfies `LangAgree`; the seven interpreters are shown to satisfy it below.
`spanWords cfg toks a b` = the lowercase texts of the tokens at positions `a ≤ i < b` that the scanner
does not skip (`-` and white space); a token hinted `nan` is NOT filtered out: the theorem shows that
none occurs inside a span whose words would not validate anyway. -/

/-- **C07 (a span validates)**: every occurrence reported by `find_numbers` either carries decimals, or
`text2digits` on exactly the words of its span answers `Ok` with the same digit text. -/
theorem C07_span_validates (cfg : ScanCfg) (hl : LangAgree cfg.lang) (toks : List Tok) (occs : List Occ)
    (h : findNumbers cfg toks = .ok occs) (o : Occ) (ho : o ∈ occs) :
    o.isDecimal ∨ text2digitsWords cfg.lang (spanWords cfg toks o.start o.stop) = .ok o.text :=
  (findNumbers_agree cfg hl toks occs h o ho).validates

/-- **C07 (same number)**: more precisely `exec_group` accepts the words of the span and the number it
builds has the text AND the value of the occurrence. -/
theorem C07_span_same_number (cfg : ScanCfg) (hl : LangAgree cfg.lang) (toks : List Tok) (occs : List Occ)
    (h : findNumbers cfg toks = .ok occs) (o : Occ) (ho : o ∈ occs) :
    o.isDecimal ∨ ∃ ds, execGroup cfg.lang.apply (spanWords cfg toks o.start o.stop) = .ok ds ∧
      ds.isEmpty = false ∧ cfg.lang.formatW ds = .ok (o.text, o.value) :=
  (findNumbers_agree cfg hl toks occs h o ho).2

/-- **C07 (no rejected word in a span)**: every word of the span of a non-decimal occurrence is accepted
or answered `Incomplete` by the builder it meets when the span is interpreted on its own. -/
theorem C07_span_no_rejected_word (cfg : ScanCfg) (hl : LangAgree cfg.lang) (toks : List Tok) (occs : List Occ)
    (h : findNumbers cfg toks = .ok occs) (o : Occ) (ho : o ∈ occs) :
    o.isDecimal ∨ stepsOk cfg.lang.apply (spanWords cfg toks o.start o.stop) DS.new := by
  rcases C07_span_same_number cfg hl toks occs h o ho with hd | ⟨ds, h1, _, _⟩
  · exact Or.inl hd
  · exact Or.inr (execGroupFrom_stepsOk _ _ _ _ _ h1)

/-- **C07 (no dangling conjunction)**: the last word of the span of a non-decimal occurrence is accepted
(`Ok`, not `Incomplete`) by the builder that the words before it produce. -/
theorem C07_span_last_word_accepted (cfg : ScanCfg) (hl : LangAgree cfg.lang) (toks : List Tok) (occs : List Occ)
    (h : findNumbers cfg toks = .ok occs) (o : Occ) (ho : o ∈ occs) (ws : List Word) (w : Word)
    (hw : spanWords cfg toks o.start o.stop = ws ++ [w]) :
    o.isDecimal ∨ (cfg.lang.apply w (foldApply cfg.lang.apply ws DS.new)).1 = none := by
  rcases C07_span_same_number cfg hl toks occs h o ho with hd | ⟨ds, h1, _, _⟩
  · exact Or.inl hd
  · right
    unfold execGroup at h1
    rw [hw] at h1
    exact execGroupFrom_last_ok _ _ _ _ _ _ h1

/-- **C07 (the running invariant)**: outside decimal mode, while a match is open, the parser's integer
builder is exactly `apply` folded from the fresh builder over the words of the non-skipped tokens
pushed since the match was opened. -/
theorem C07_parser_is_fold (cfg : ScanCfg) (hl : LangAgree cfg.lang) (toks : List Tok) (s : Scanner)
    (h : Scanner.pushAll cfg {} (enumFrom 0 toks) = .ok s)
    (hn : s.parser.hasNumber = true) (hd : s.parser.isDec = false) :
    s.parser.int = foldApply cfg.lang.apply (spanWords cfg toks s.tracker.mstart toks.length) DS.new := by
  have hinv := pushAll_agree cfg hl toks [] {} s (AInv.init cfg) h
  rw [List.nil_append] at hinv
  exact hinv.int_eq_fold hn hd

/-! ### the seven interpreters satisfy `LangAgree` -/

theorem lookup_all (P : Act → Bool) (l : List (Word × Act)) (hl : (l.all fun p => P p.2) = true)
    (hd : P (.fail .nan) = true) (k : Word) : P ((l.lookup k).getD (.fail .nan)) = true := by
  induction l with
  | nil => exact hd
  | cons p ps ih =>
    cases p with
    | mk a v =>
      rw [List.all_cons, Bool.and_eq_true] at hl
      rw [List.lookup_cons]
      cases hk : (k == a) with
      | true => exact hl.1
      | false => exact ih hl.2

/-- assembling `LangAgree` from the facts of T2N/Lemmas/LangFacts.lean and the three extra ones -/
theorem langAgree_of (l : Lang)
    (h1 : ∀ w b e, (l.apply w b).1 = some e → T2N.SameButFlags b (l.apply w b).2)
    (h2 : ∀ w b, (l.apply w b).1 = none → (l.apply w b).2.isEmpty = false)
    (h3 : ∀ w e, (l.apply w DS.new).1 = some e → (l.apply w DS.new).2 = DS.new)
    (h4 : ∀ w d e, (l.applyDecimal w d).1 = some e → T2N.SameButFlags d (l.applyDecimal w d).2)
    (h5 : ∀ w d, (l.applyDecimal w d).1 = none → (l.applyDecimal w d).2.isEmpty = false)
    (h6 : ∀ b, ∃ e, (l.apply [','] b).1 = some e ∧ e ≠ .incomplete)
    (h7 : l.isDecSep [','] = false) : LangAgree l where
  err_same := h1
  ok_nonempty := h2
  err_new := h3
  dec_err := fun w d e he => (h4 w d e he).isEmpty_eq
  dec_ok := h5
  comma_rejected := h6
  comma_not_sep := h7

/-! a word refused on the fresh builder leaves the fresh builder, flags included -/

theorem apply_err_new_fr (w : Word) (e : Err) (h : (Fr.apply w DS.new).1 = some e) :
    (Fr.apply w DS.new).2 = DS.new := by
  unfold Fr.apply Fr.applyFuel at *
  by_cases hc : w.contains '-' = true
  · rw [if_pos hc] at h ⊢
    cases hg : execGroup (Fr.applyFuel 1) (splitOnChar '-' w) with
    | error e' => rfl
    | ok ds => rw [hg] at h; exact mergeGroup_atomic DS.new ds true ds.marker e h
  · rw [if_neg hc] at h ⊢
    dsimp only at h ⊢
    have hw := lookup_wf Fr.vocab Fr.vocab_wf (Fr.lemmatize w)
    rcases Act.exec_cases _ hw DS.new with ⟨e', tb, he⟩ | ⟨b', tb, he, _⟩
    · rw [he]; rfl
    · rw [he] at h; simp at h

theorem apply_err_new_de (w : Word) (e : Err) (h : (De.apply w DS.new).1 = some e) :
    (De.apply w DS.new).2 = DS.new := by
  unfold De.apply De.applyFuel at *
  dsimp only at h ⊢
  by_cases hc : isSplittable De.patterns (De.lemmatize w) = true
  · rw [if_pos hc] at h ⊢
    cases hg : execGroup (De.applyFuel 1) (splitWord De.patterns (De.lemmatize w)) with
    | error e' => rfl
    | ok ds => rw [hg] at h; exact mergeGroup_atomic DS.new ds false ds.marker e h
  · rw [if_neg hc] at h ⊢
    have hw := lookup_wf De.vocab De.vocab_wf (De.lemmatize w)
    rcases Act.exec_cases _ hw DS.new with ⟨e', tb, he⟩ | ⟨b', tb, he, _⟩
    · rw [he]; rfl
    · rw [he] at h; simp at h

theorem apply_err_new_nl (w : Word) (e : Err) (h : (Nl.apply w DS.new).1 = some e) :
    (Nl.apply w DS.new).2 = DS.new := by
  unfold Nl.apply Nl.applyFuel at *
  by_cases hc : isSplittable Nl.patterns w = true
  · rw [if_pos hc] at h ⊢
    cases hg : execGroup (Nl.applyFuel 1) (splitWord Nl.patterns w) with
    | error e' => rfl
    | ok ds => rw [hg] at h; exact mergeGroup_atomic DS.new ds false ds.marker e h
  · rw [if_neg hc] at h ⊢
    dsimp only at h ⊢
    have hw := lookup_wf Nl.vocab Nl.vocab_wf w
    rcases Act.exec_cases _ hw DS.new with ⟨e', tb, he⟩ | ⟨b', tb, he, _⟩
    · rw [he]; rfl
    · rw [he] at h; simp at h; split at h <;> simp at h

theorem apply_err_new_it (w : Word) (e : Err) (h : (It.apply w DS.new).1 = some e) :
    (It.apply w DS.new).2 = DS.new := by
  unfold It.apply It.applyFuel at *
  dsimp only at h ⊢
  by_cases hc : isSplittable It.patterns (It.lemmatize w) = true
  · rw [if_pos hc] at h ⊢
    cases hg : execGroup (It.applyFuel 1) (splitWord It.patterns (It.lemmatize w)) with
    | error e' => rfl
    | ok ds => rw [hg] at h; exact mergeGroup_atomic DS.new ds false (It.morph w) e h
  · rw [if_neg hc] at h ⊢
    have hw : (if (It.lemmatize w == w!"non" && w == w!"non") = true then Act.fail Err.nan
        else (It.vocab.lookup (It.lemmatize w)).getD (.fail .nan)).wf = true := by
      split
      · rfl
      · exact lookup_wf It.vocab It.vocab_wf (It.lemmatize w)
    rcases Act.exec_cases _ hw DS.new with ⟨e', tb, he⟩ | ⟨b', tb, he, _⟩
    · rw [he]; rfl
    · rw [he] at h; simp at h; split at h <;> simp at h

theorem apply_err_new_es (w : Word) (e : Err) (h : (Es.apply w DS.new).1 = some e) :
    (Es.apply w DS.new).2 = DS.new := by
  unfold Es.apply at *
  dsimp only at h ⊢
  split
  · rfl
  · rename_i hc
    rw [if_neg hc] at h
    have hw := lookup_wf Es.vocab Es.vocab_wf (Es.lemmatize w)
    rcases Act.exec_cases _ hw DS.new with ⟨e', tb, he⟩ | ⟨b', tb, he, _⟩
    · rw [he]; rfl
    · rw [he] at h; simp at h

/-- pt rewrites the flags to `CONJUNCTION` after `Incomplete`; but no word is `Incomplete` on the
fresh builder (the conjunction "e" needs two digits) -/
theorem Pt.new_not_incomplete (mnone : Bool) :
    ((Pt.vocab mnone).all fun p => (p.2.exec DS.new).1 != some .incomplete) = true := by
  cases mnone <;> decide

theorem apply_err_new_pt (w : Word) (e : Err) (h : (Pt.apply w DS.new).1 = some e) :
    (Pt.apply w DS.new).2 = DS.new := by
  unfold Pt.apply at *
  dsimp only at h ⊢
  have hc : ¬ ((!DS.new.isEmpty && Pt.morph w != DS.new.marker) = true) := by
    intro hc; revert hc; cases (Pt.morph w != DS.new.marker) <;> decide
  rw [if_neg hc] at h ⊢
  have hni := lookup_all (fun a => (a.exec DS.new).1 != some .incomplete) (Pt.vocab (Pt.morph w).isNone)
    (Pt.new_not_incomplete _) (by decide) (Pt.lemmatize w)
  cases hr : (((Pt.vocab (Pt.morph w).isNone).lookup (Pt.lemmatize w)).getD (.fail .nan)).exec DS.new with
  | mk r rest =>
    cases rest with
    | mk b' next =>
      rw [hr] at h hni
      dsimp only at h hni ⊢
      have hat := Act.exec_atomic (((Pt.vocab (Pt.morph w).isNone).lookup (Pt.lemmatize w)).getD (.fail .nan)) DS.new
      rw [hr] at hat
      cases r with
      | none => simp at h
      | some e' =>
        have hb : b' = DS.new := hat e' rfl
        subst hb
        cases e' with
        | incomplete => simp at hni
        | overlap => rfl
        | nan => rfl
        | frozen => rfl

/-! the forced stop `","` is refused with `NaN` (es, pt: or `Overlap`) -/

theorem apply_comma_es (b : DS) : ∃ e, (Es.apply [','] b).1 = some e ∧ e ≠ .incomplete := by
  unfold Es.apply
  dsimp only
  split
  · exact ⟨.overlap, rfl, by intro h; cases h⟩
  · exact ⟨.nan, rfl, by intro h; cases h⟩

theorem apply_comma_pt (b : DS) : ∃ e, (Pt.apply [','] b).1 = some e ∧ e ≠ .incomplete := by
  unfold Pt.apply
  dsimp only
  split
  · exact ⟨.overlap, rfl, by intro h; cases h⟩
  · exact ⟨.nan, rfl, by intro h; cases h⟩

theorem C07_langAgree_en : LangAgree En.lang :=
  langAgree_of En.lang En.apply_err_same En.apply_ok_nonempty
    (fun w e h => C07_apply_atomic_en w DS.new e h)
    En.applyDecimal_err_same En.applyDecimal_ok_nonempty
    (fun _ => ⟨.nan, rfl, by intro h; cases h⟩) rfl

theorem C07_langAgree_fr : LangAgree Fr.lang :=
  langAgree_of Fr.lang Fr.apply_err_same Fr.apply_ok_nonempty apply_err_new_fr
    Fr.applyDecimal_err_same Fr.applyDecimal_ok_nonempty
    (fun _ => ⟨.nan, rfl, by intro h; cases h⟩) rfl

theorem C07_langAgree_es : LangAgree Es.lang :=
  langAgree_of Es.lang Es.apply_err_same Es.apply_ok_nonempty apply_err_new_es
    Es.applyDecimal_err_same Es.applyDecimal_ok_nonempty apply_comma_es rfl

theorem C07_langAgree_pt : LangAgree Pt.lang :=
  langAgree_of Pt.lang Pt.apply_err_same Pt.apply_ok_nonempty apply_err_new_pt
    Pt.applyDecimal_err_same Pt.applyDecimal_ok_nonempty apply_comma_pt rfl

theorem C07_langAgree_it : LangAgree It.lang :=
  langAgree_of It.lang It.apply_err_same It.apply_ok_nonempty apply_err_new_it
    It.applyDecimal_err_same It.applyDecimal_ok_nonempty
    (fun _ => ⟨.nan, rfl, by intro h; cases h⟩) rfl

theorem C07_langAgree_de : LangAgree De.lang :=
  langAgree_of De.lang De.apply_err_same De.apply_ok_nonempty apply_err_new_de
    De.applyDecimal_err_same De.applyDecimal_ok_nonempty
    (fun _ => ⟨.nan, rfl, by intro h; cases h⟩) rfl

theorem C07_langAgree_nl : LangAgree Nl.lang :=
  langAgree_of Nl.lang Nl.apply_err_same Nl.apply_ok_nonempty apply_err_new_nl
    Nl.applyDecimal_err_same Nl.applyDecimal_ok_nonempty
    (fun _ => ⟨.nan, rfl, by intro h; cases h⟩) rfl

theorem C07_langAgree_all : ∀ l ∈ allLangs, LangAgree l := by
  intro l hl
  simp only [allLangs, List.mem_cons, List.not_mem_nil, or_false] at hl
  rcases hl with rfl | rfl | rfl | rfl | rfl | rfl | rfl
  · exact C07_langAgree_en
  · exact C07_langAgree_fr
  · exact C07_langAgree_es
  · exact C07_langAgree_pt
  · exact C07_langAgree_it
  · exact C07_langAgree_de
  · exact C07_langAgree_nl

/-- **C07 for the seven interpreters**, any character classes, separation relation, threshold, hints -/
theorem C07_span_validates_builtin (cfg : ScanCfg) (hl : cfg.lang ∈ allLangs) (toks : List Tok)
    (occs : List Occ) (h : findNumbers cfg toks = .ok occs) (o : Occ) (ho : o ∈ occs) :
    o.isDecimal ∨ text2digitsWords cfg.lang (spanWords cfg toks o.start o.stop) = .ok o.text :=
  C07_span_validates cfg (C07_langAgree_all cfg.lang hl) toks occs h o ho

/-! non-vacuity: in `one hundred and foo two point five` the scanner reports `100` over the tokens
`[0, 3)` (`one`, space, `hundred`: the `and` was answered `Incomplete` and stays outside the span, `foo`
was refused) and the decimal `2.5`; the words of the first span validate to `100` on their own. -/
def exPhrase : List Word := [w!"one", w!"hundred", w!"and", w!"foo", w!"two", w!"point", w!"five"]

example : (findNumbers (scanCfg En.lang zeroThr) (wordTokens exPhrase)).toOption.map
    (fun os => os.map fun o => (o.start, o.stop, o.text)) = some [(0, 3, w!"100"), (8, 13, w!"2.5")] := by
  decide +kernel

example : spanWords (scanCfg En.lang zeroThr) (wordTokens exPhrase) 0 3 = [w!"one", w!"hundred"] := by
  decide +kernel

example : text2digitsWords En.lang (spanWords (scanCfg En.lang zeroThr) (wordTokens exPhrase) 0 3) = .ok w!"100" := by
  decide +kernel

end T2N.C07

/-! ## ——— C07, clauses 2 and 3 (block added by task `lift`; proofs in T2N/Lemmas/Lift.lean) ———

"Any phrase the validator accepts is seen by the scanner (threshold 0, no ambiguity annotation) as
exactly one number with the same digits, so two numbers that do not combine are never validated as
one. With threshold 0, every word that is a valid number on its own and was not set aside by the
language's ambiguity rules lies inside some reported occurrence."

Vocabulary (T2N/Lemmas/Lift.lean): `wordsOf cfg toks` = the lowercase texts of the tokens that the
scanner does not skip; `IdleTok` = a token that opens no number (skipped, hinted `nan`, or its word is
not accepted by the fresh builder); `PlainTok` = a token that ends a number (skipped, hinted `nan`, or
its word is refused by the parser in every state with an error other than `Incomplete`: `Lang.Rejects`);
`idleB` = `IdleTok` as a Boolean; `NeverInc l w` = the language never answers `Incomplete` for `w`. -/

namespace T2N.C07
open T2N T2N.Lift

/-- **C07 (a valid phrase is exactly one occurrence)**, any language satisfying `LangAgree`.
`core` = the tokens of the phrase (word tokens, with skipped tokens — white space, `-` — interleaved at
will; the last one is a word token), `P` = what precedes (opens no number), `Q` = what follows (ends the
number). No pause hints (`hsep`), threshold 0 (`hthr`), no token of the phrase is hinted `nan`, no word
of the phrase is the decimal separator. If `text2digits` accepts the words of the phrase with digits
`d`, `find_numbers` returns exactly one occurrence, with text `d`, the value and ordinal flag of the
builder the validator reached, ending after the last word of the phrase and starting at its first word
that the fresh builder accepts (leading conjunctions answered `Incomplete` stay outside). -/
theorem C07_valid_is_one (cfg : ScanCfg) (hl : LangAgree cfg.lang) (hsep : ∀ x y, cfg.sep x y = false)
    (hthr : ∀ n, cfg.thrLt n = false) (P core Q : List Tok) (d : Word)
    (hP : ∀ t ∈ P, IdleTok cfg t) (hQ : ∀ t ∈ Q, PlainTok cfg t)
    (hcore : ∀ t ∈ core, Scanner.isSkipped cfg t = false → t.nan = false ∧ cfg.lang.isDecSep t.lower = false)
    (hlast : ∀ t ∈ core.getLast?, Scanner.isSkipped cfg t = false)
    (h : text2digitsWords cfg.lang (wordsOf cfg core) = .ok d) :
    ∃ ds v, execGroup cfg.lang.apply (wordsOf cfg core) = .ok ds ∧ cfg.lang.formatW ds = .ok (d, v) ∧
      findNumbers cfg (P ++ core ++ Q) =
        .ok [⟨P.length + (core.takeWhile (idleB cfg)).length, P.length + core.length, d, v, ds.isOrdinal⟩] :=
  valid_is_one_general cfg hl hsep hthr P core Q d hP hQ hcore hlast h

/-- … when moreover the first token of the phrase is a word that the fresh builder accepts (always the
case in en, fr, es, pt, it; not for a leading `und` / `en` in de, nl), the occurrence is the phrase. -/
theorem C07_valid_is_one_first (cfg : ScanCfg) (hl : LangAgree cfg.lang) (hsep : ∀ x y, cfg.sep x y = false)
    (hthr : ∀ n, cfg.thrLt n = false) (P core Q : List Tok) (d : Word)
    (hP : ∀ t ∈ P, IdleTok cfg t) (hQ : ∀ t ∈ Q, PlainTok cfg t)
    (hcore : ∀ t ∈ core, Scanner.isSkipped cfg t = false → t.nan = false ∧ cfg.lang.isDecSep t.lower = false)
    (hhead : ∀ t ∈ core.head?, Scanner.isSkipped cfg t = false ∧ (cfg.lang.apply t.lower DS.new).1 = none)
    (hlast : ∀ t ∈ core.getLast?, Scanner.isSkipped cfg t = false)
    (h : text2digitsWords cfg.lang (wordsOf cfg core) = .ok d) :
    ∃ ds v, execGroup cfg.lang.apply (wordsOf cfg core) = .ok ds ∧ cfg.lang.formatW ds = .ok (d, v) ∧
      findNumbers cfg (P ++ core ++ Q) = .ok [⟨P.length, P.length + core.length, d, v, ds.isOrdinal⟩] :=
  valid_is_one cfg hl hsep hthr P core Q d hP hQ hcore hhead hlast h

/-- **C07 (a valid phrase given as words)**: `toks = wordTokens ws` (the words separated by single
spaces), first word accepted by the fresh builder: one occurrence spanning all tokens. -/
theorem C07_valid_is_one_words (cfg : ScanCfg) (hl : LangAgree cfg.lang) (hsep : ∀ x y, cfg.sep x y = false)
    (hthr : ∀ n, cfg.thrLt n = false) (hspace : cfg.cc.isWhitespace ' ' = true) (ws : List Word) (d : Word)
    (hws : ∀ w ∈ ws, Scanner.isSkipped cfg (wtok w) = false ∧ cfg.lang.isDecSep w = false)
    (hfirst : ∀ w ∈ ws.head?, (cfg.lang.apply w DS.new).1 = none)
    (h : text2digitsWords cfg.lang ws = .ok d) :
    ∃ ds v, execGroup cfg.lang.apply ws = .ok ds ∧ cfg.lang.formatW ds = .ok (d, v) ∧
      findNumbers cfg (wordTokens ws) = .ok [⟨0, (wordTokens ws).length, d, v, ds.isOrdinal⟩] :=
  valid_is_one_words cfg hl hsep hthr hspace ws d hws hfirst h

/-- **C07 for the seven interpreters**: the hypothesis on the decimal separator disappears (a phrase
that validates contains none: `apply` refuses it in every state). -/
theorem C07_valid_is_one_builtin (cfg : ScanCfg) (hl : cfg.lang ∈ allLangs) (hsep : ∀ x y, cfg.sep x y = false)
    (hthr : ∀ n, cfg.thrLt n = false) (P core Q : List Tok) (d : Word)
    (hP : ∀ t ∈ P, IdleTok cfg t) (hQ : ∀ t ∈ Q, PlainTok cfg t)
    (hcore : ∀ t ∈ core, Scanner.isSkipped cfg t = false → t.nan = false)
    (hlast : ∀ t ∈ core.getLast?, Scanner.isSkipped cfg t = false)
    (h : text2digitsWords cfg.lang (wordsOf cfg core) = .ok d) :
    ∃ ds v, execGroup cfg.lang.apply (wordsOf cfg core) = .ok ds ∧ cfg.lang.formatW ds = .ok (d, v) ∧
      findNumbers cfg (P ++ core ++ Q) =
        .ok [⟨P.length + (core.takeWhile (idleB cfg)).length, P.length + core.length, d, v, ds.isOrdinal⟩] :=
  valid_is_one_builtin cfg hl (C07_langAgree_all cfg.lang hl) hsep hthr P core Q d hP hQ hcore hlast h

/-- **C07 (two numbers that do not combine are never validated as one)**: if the scanner does not see
exactly one occurrence in the phrase, the validator rejects it. -/
theorem C07_not_one_not_valid (cfg : ScanCfg) (hl : LangAgree cfg.lang) (hsep : ∀ x y, cfg.sep x y = false)
    (hthr : ∀ n, cfg.thrLt n = false) (toks : List Tok) (occs : List Occ)
    (htoks : ∀ t ∈ toks, Scanner.isSkipped cfg t = false → t.nan = false ∧ cfg.lang.isDecSep t.lower = false)
    (hlast : ∀ t ∈ toks.getLast?, Scanner.isSkipped cfg t = false)
    (hf : findNumbers cfg toks = .ok occs) (hlen : occs.length ≠ 1) (d : Word) :
    text2digitsWords cfg.lang (wordsOf cfg toks) ≠ .ok d := by
  intro h
  obtain ⟨ds, v, _, _, hfind⟩ := valid_is_one_general cfg hl hsep hthr [] toks [] d
    (fun _ h => by cases h) (fun _ h => by cases h) htoks hlast h
  rw [List.nil_append, List.append_nil, hf] at hfind
  injection hfind with hfind
  rw [hfind] at hlen
  exact hlen rfl

/-- **C07 (nothing valid is left spelled out at threshold 0)**, any language satisfying `LangAgree`, any
pause hints (`hcomma`: no hints, or the forced stop `","` is never answered `Incomplete` in decimal
mode). A token that is not skipped, not set aside (`nan = false`), whose word is a valid number on its
own and is never answered `Incomplete` by the language, lies inside some reported occurrence. -/
theorem C07_nothing_left (cfg : ScanCfg) (hl : LangAgree cfg.lang) (hthr : ∀ n, cfg.thrLt n = false)
    (toks : List Tok) (occs : List Occ) (h : findNumbers cfg toks = .ok occs) (i : Nat) (hi : i < toks.length)
    (d : Word) (hw : text2digitsWords cfg.lang [toks[i].lower] = .ok d)
    (hn : toks[i].nan = false) (hs : Scanner.isSkipped cfg toks[i] = false)
    (hni : NeverInc cfg.lang toks[i].lower)
    (hcomma : (∀ x y, cfg.sep x y = false) ∨ ∀ b, (cfg.lang.applyDecimal [','] b).1 ≠ some .incomplete) :
    ∃ o ∈ occs, o.start ≤ i ∧ i < o.stop :=
  nothing_left cfg hl hthr toks occs h i hi hs hn (valid_alone hw) hni hcomma

/-- **C07 (a word valid on its own is never answered `Incomplete`)**, the seven interpreters: the extra
hypothesis of `C07_nothing_left` always holds for them. (`Incomplete` is the answer of conjunction words
and of compounds ending on one; neither is ever accepted.) -/
theorem C07_valid_never_incomplete (l : Lang) (hl : l ∈ allLangs) (w : Word)
    (hv : (l.apply w DS.new).1 = none) : NeverInc l w :=
  neverInc_builtin l hl w hv

/-- **C07 (nothing valid is left spelled out), the seven interpreters**: any character classes, any pause
hints, threshold 0. -/
theorem C07_nothing_left_builtin (cfg : ScanCfg) (hl : cfg.lang ∈ allLangs) (hthr : ∀ n, cfg.thrLt n = false)
    (toks : List Tok) (occs : List Occ) (h : findNumbers cfg toks = .ok occs) (i : Nat) (hi : i < toks.length)
    (d : Word) (hw : text2digitsWords cfg.lang [toks[i].lower] = .ok d)
    (hn : toks[i].nan = false) (hs : Scanner.isSkipped cfg toks[i] = false) :
    ∃ o ∈ occs, o.start ≤ i ∧ i < o.stop :=
  nothing_left cfg (C07_langAgree_all cfg.lang hl) hthr toks occs h i hi hs hn (valid_alone hw)
    (neverInc_builtin cfg.lang hl _ (valid_alone hw))
    (Or.inr (comma_dec_builtin cfg.lang hl (C07_langAgree_all cfg.lang hl)))

/-! non-vacuity.
* `two three` does not validate, and the scanner sees two occurrences;
* `one hundred and twenty-one` validates to `121` and is one occurrence over all its 7 tokens, also inside
  `foo one hundred and twenty-one bar` (tokens 2 … 8);
* German `und zwanzig` validates to `20`; the occurrence is the token of `zwanzig` only;
* in `foo two bar three` both `two` and `three` are reported. -/

example : (findNumbers (scanCfg En.lang zeroThr) (wordTokens [w!"two", w!"three"])).toOption.map
    (fun os => os.map fun o => (o.start, o.stop, o.text)) = some [(0, 1, w!"2"), (2, 3, w!"3")] := by
  decide +kernel

example : text2digitsWords En.lang [w!"two", w!"three"] = .err .overlap := by decide +kernel

example : text2digitsWords En.lang [w!"one", w!"hundred", w!"and", w!"twenty-one"] = .ok w!"121" := by
  decide +kernel

example : (findNumbers (scanCfg En.lang zeroThr)
      (wordTokens [w!"foo", w!"one", w!"hundred", w!"and", w!"twenty-one", w!"bar"])).toOption.map
    (fun os => os.map fun o => (o.start, o.stop, o.text)) = some [(2, 9, w!"121")] := by
  decide +kernel

example : text2digitsWords De.lang [w!"und", w!"zwanzig"] = .ok w!"20" := by decide +kernel

example : (findNumbers (scanCfg De.lang zeroThr) (wordTokens [w!"und", w!"zwanzig"])).toOption.map
    (fun os => os.map fun o => (o.start, o.stop, o.text)) = some [(2, 3, w!"20")] := by
  decide +kernel

example : ((wordTokens [w!"und", w!"zwanzig"]).takeWhile (idleB (scanCfg De.lang zeroThr))).length = 2 := by
  decide +kernel

/-- the hypotheses of `C07_valid_is_one_words` hold for `one hundred and twenty-one` -/
example : ∃ ds v, execGroup En.lang.apply [w!"one", w!"hundred", w!"and", w!"twenty-one"] = .ok ds ∧
    En.lang.formatW ds = .ok (w!"121", v) ∧
    findNumbers (scanCfg En.lang zeroThr) (wordTokens [w!"one", w!"hundred", w!"and", w!"twenty-one"]) =
      .ok [⟨0, 7, w!"121", v, ds.isOrdinal⟩] :=
  C07_valid_is_one_words (scanCfg En.lang zeroThr) C07_langAgree_en (fun _ _ => rfl) (fun _ => rfl) rfl
    [w!"one", w!"hundred", w!"and", w!"twenty-one"] w!"121" (by decide +kernel) (by decide +kernel)
    (by decide +kernel)

/-- a word refused in every state: `foo` -/
example : En.lang.Rejects w!"foo" :=
  Lang.rejects_of_apply En.lang w!"foo" (fun _ => ⟨.nan, rfl, by intro h; cases h⟩)
    (fun _ => ⟨.nan, rfl, by intro h; cases h⟩) rfl

/-- `NeverInc` holds for `two` -/
example : NeverInc En.lang w!"two" := C07_valid_never_incomplete En.lang (List.mem_cons_self ..) w!"two" (by decide +kernel)

example : (findNumbers (scanCfg En.lang zeroThr) (wordTokens [w!"foo", w!"two", w!"bar", w!"three"])).toOption.map
    (fun os => os.map fun o => (o.start, o.stop, o.text)) = some [(2, 3, w!"2"), (6, 7, w!"3")] := by
  decide +kernel

/-- the hypotheses of `C07_valid_is_one_builtin` hold for German `und zwanzig` (leading conjunction) -/
example : ∃ ds v, execGroup De.lang.apply (wordsOf (scanCfg De.lang zeroThr) (wordTokens [w!"und", w!"zwanzig"])) = .ok ds ∧
    De.lang.formatW ds = .ok (w!"20", v) ∧
    findNumbers (scanCfg De.lang zeroThr) ([] ++ wordTokens [w!"und", w!"zwanzig"] ++ []) =
      .ok [⟨0 + ((wordTokens [w!"und", w!"zwanzig"]).takeWhile (idleB (scanCfg De.lang zeroThr))).length,
        0 + (wordTokens [w!"und", w!"zwanzig"]).length, w!"20", v, ds.isOrdinal⟩] :=
  C07_valid_is_one_builtin (scanCfg De.lang zeroThr) (by simp [allLangs, scanCfg]) (fun _ _ => rfl) (fun _ => rfl)
    [] (wordTokens [w!"und", w!"zwanzig"]) [] w!"20" (fun _ h => by cases h) (fun _ h => by cases h)
    (by decide +kernel) (by decide +kernel) (by decide +kernel)

end T2N.C07
