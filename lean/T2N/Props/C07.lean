/-
  C07 — scanner and validator agree; at threshold 0 no number is left spelled out.

  Ingredient proved here: **failure atomicity of `apply`** — a word that is rejected leaves no trace in
  the number being built, so the finished number reflects accepted words only (this is exactly what the
  write-before-check of `DigitString::shift` broke: `billion billion` gave `1000000001 1000000000`).
  It is proved generically for every instruction of the instruction language (T2N/Lemmas/Act.lean,
  `Act.exec_atomic`, by induction on the instruction) and lifted to the interpreters.
-/
import T2N.Lemmas.Act
import T2N.Model.Langs

namespace T2N.C07
open T2N

/-- the builders agree on everything but the blocking flags -/
def SameButFlags (b b' : DS) : Prop :=
  b'.rbuf = b.rbuf ∧ b'.lz = b.lz ∧ b'.frozen = b.frozen ∧ b'.marker = b.marker

/-- **C07 (instruction atomicity)**: every table entry of every language, in every builder state. -/
theorem C07_instruction_atomic (a : Act) (b : DS) (e : Err) (h : (a.exec b).1 = some e) :
    (a.exec b).2.1 = b := Act.exec_atomic a b e h

/-- the compound merge (`-` groups, split compounds) is atomic -/
theorem mergeGroup_atomic (b ds : DS) (cf : Bool) (m : Marker) (e : Err)
    (h : (mergeGroup b ds cf m).1 = some e) : (mergeGroup b ds cf m).2 = b := by
  unfold mergeGroup at *
  split
  · rfl
  · rename_i hc
    rw [if_neg hc] at h
    cases hp : b.put ds.rbuf.reverse with
    | mk r b' =>
      rw [hp] at h
      cases r with
      | some e' =>
        have := put_atomic b ds.rbuf.reverse e' (by rw [hp])
        rw [hp] at this
        simpa using this
      | none => simp at h

/-- **C07 (English)**: a rejected word leaves the builder exactly as it was. -/
theorem C07_apply_atomic_en (w : Word) (b : DS) (e : Err) (h : (En.apply w b).1 = some e) :
    (En.apply w b).2 = b := by
  unfold En.apply En.applyFuel at *
  by_cases hc : w.contains '-' = true
  · rw [if_pos hc] at h ⊢
    cases hg : execGroup (En.applyFuel 1) (splitOnChar '-' w) with
    | error e' => rfl
    | ok ds =>
      rw [hg] at h
      exact mergeGroup_atomic b ds false ds.marker e h
  · rw [if_neg hc] at h ⊢
    dsimp only at h ⊢
    cases hr : ((En.vocab.lookup (En.lemmatize w)).getD (.fail .nan)).exec b with
    | mk r rest =>
      cases rest with
      | mk b' tb =>
        rw [hr] at h
        dsimp only at h ⊢
        cases r with
        | none => simp at h; split at h <;> simp at h
        | some e' =>
          have := Act.exec_atomic _ b e' (by rw [hr])
          rw [hr] at this
          simpa using this

/-! non-vacuity: `billion` is rejected on `1000000000` and leaves it unchanged (the pinned tree left
`1000000001`) -/
example : (En.apply w!"billion" { rbuf := [0,0,0,0,0,0,0,0,0,1] }) = (some .overlap, { rbuf := [0,0,0,0,0,0,0,0,0,1] }) := by
  decide

end T2N.C07
