/-
  C02 (text level) — `replace_numbers_in_text` is the splice of the reported occurrences into the
  tokens of the text, for every text, language, threshold and character classes; combines the
  tokenizer theorem, the splice theorem (Props/C02.lean) and the span invariant (Props/C06.lean).
-/
import T2N.Props.C02
import T2N.Props.C06

namespace T2N.C02
open T2N

/-- **C02 (text)**: the rewritten text is the concatenation of the token texts with exactly the reported
occurrences spliced in; in particular the call always returns (no fault), whatever the annotation pass. -/
theorem C02_text (cfg : ScanCfg) (annot : List Tok → List Tok) (s : Word) :
    ∃ occs, findNumbers cfg (annot (tokenize cfg.cc s)) = .ok occs ∧
      replaceTextWith cfg annot s =
        .ok ((splice (basicReplace cfg.cc) 0 (annot (tokenize cfg.cc s)) occs).flatMap (·.text)) := by
  obtain ⟨occs, h⟩ := findNumbers_ok cfg (annot (tokenize cfg.cc s))
  refine ⟨occs, h.1, ?_⟩
  unfold replaceTextWith
  have hs := C06.C06_spansOk cfg _ occs h.1
  simp only [h.1, C02_replace_is_splice (basicReplace cfg.cc) _ occs hs]

/-- every character outside an occurrence is kept: the output tokens are the input tokens with each
span replaced by ONE token carrying the digit text (`splice_eq_trace`), and the kept tokens plus the
replaced ones are exactly the input tokens in order (`C02_tokens_partition`); with an annotation pass
that does not touch texts, the kept pieces are pieces of the original text (`C02_tokenize_lossless`). -/
theorem C02_text_pieces (cfg : ScanCfg) (annot : List Tok → List Tok) (s : Word)
    (hann : ∀ toks, (annot toks).map (·.text) = toks.map (·.text)) :
    ∃ occs, findNumbers cfg (annot (tokenize cfg.cc s)) = .ok occs ∧
      (((spliceTrace 0 (annot (tokenize cfg.cc s)) occs).map Piece.tokens).flatten.map (·.text)).flatten = s := by
  obtain ⟨occs, h⟩ := findNumbers_ok cfg (annot (tokenize cfg.cc s))
  refine ⟨occs, h.1, ?_⟩
  have hs := C06.C06_spansOk cfg _ occs h.1
  have hp := C02_tokens_partition occs 0 (annot (tokenize cfg.cc s)) (by simpa using hs)
  rw [hp, hann]
  exact C02_tokenize_lossless cfg.cc s

end T2N.C02
