/-
  C02 (annotation passes) — the ambiguity annotators (en `o`, fr `neuf`) only ever set the NaN hint of a
  token: texts, lowercase copies, time stamps, number and order of tokens are untouched, for every token
  list, every `apply` function and every char classes. This discharges the hypothesis `hann` of
  `C02_no_number` / `C02_text_pieces` for the annotation pass of every built-in language, so the text-level
  locality statements hold for `replace_numbers_in_text` itself, with no premise left.
-/
import T2N.Props.C02.Text
import T2N.Props.C02.Canon

namespace T2N.C02
open T2N

/-- everything of a token except the NaN hint -/
def core (t : Tok) : Word × Word × Nat × Nat := (t.text, t.lower, t.tstart, t.tend)

theorem setNan_core (toks : List Tok) (i : Nat) : (setNan toks i).map core = toks.map core := by
  apply List.ext_getElem?
  intro j
  simp only [setNan, List.getElem?_map, List.getElem?_modify]
  cases h : toks[j]? with
  | none => simp
  | some t => by_cases hij : i = j <;> simp [hij, core]

/-- the hint only ever goes from unset to set -/
theorem setNan_nan_mono (toks : List Tok) (i j : Nat) (t : Tok) (h : toks[j]? = some t) :
    ∃ t', (setNan toks i)[j]? = some t' ∧ (t.nan = true → t'.nan = true) := by
  simp only [setNan, List.getElem?_modify, h]
  by_cases hij : i = j <;> simp [hij]

theorem annotateEnLoop_core (apply : Word → DS → Res × DS) (sig : List Nat) :
    ∀ (is : List Nat) (j : Nat) (b : DS) (toks : List Tok),
      (annotateEnLoop apply sig is j b toks).map core = toks.map core
  | [], _, _, _ => rfl
  | i :: rest, j, b, toks => by
    unfold annotateEnLoop
    split
    · dsimp only
      split
      · exact annotateEnLoop_core apply sig rest _ _ _
      · rw [annotateEnLoop_core apply sig rest _ _ _, setNan_core]
    · exact annotateEnLoop_core apply sig rest _ _ _

theorem annotateFrLoop_core (apply : Word → DS → Res × DS) (isDecSep : Word → Bool) (tw : List Nat) :
    ∀ (is : List Nat) (b : DS) (toks : List Tok),
      (annotateFrLoop apply isDecSep tw is b toks).map core = toks.map core
  | [], _, _ => rfl
  | i :: rest, b, toks => by
    unfold annotateFrLoop
    split
    · exact annotateFrLoop_core apply isDecSep tw rest _ _
    · dsimp only
      repeat' split
      all_goals first
        | exact annotateFrLoop_core apply isDecSep tw rest _ _
        | (rw [annotateFrLoop_core apply isDecSep tw rest _ _, setNan_core])

/-- **the annotation pass of every built-in language touches nothing but the NaN hint** -/
theorem C02_annotate_core (cc : CharClasses) (l : Language) (toks : List Tok) :
    (l.annotate cc toks).map core = toks.map core := by
  cases l <;> first
    | rfl
    | exact annotateEnLoop_core _ _ _ _ _ _
    | exact annotateFrLoop_core _ _ _ _ _ _

theorem C02_annotate_text (cc : CharClasses) (l : Language) (toks : List Tok) :
    (l.annotate cc toks).map (·.text) = toks.map (·.text) := by
  have := congrArg (List.map (fun p : Word × Word × Nat × Nat => p.1)) (C02_annotate_core cc l toks)
  simpa [List.map_map, Function.comp_def, core] using this

theorem C02_annotate_lower (cc : CharClasses) (l : Language) (toks : List Tok) :
    (l.annotate cc toks).map (·.lower) = toks.map (·.lower) := by
  have := congrArg (List.map (fun p : Word × Word × Nat × Nat => p.2.1)) (C02_annotate_core cc l toks)
  simpa [List.map_map, Function.comp_def, core] using this

theorem C02_annotate_length (cc : CharClasses) (l : Language) (toks : List Tok) :
    (l.annotate cc toks).length = toks.length := by
  have := congrArg List.length (C02_annotate_core cc l toks)
  simpa using this

/-! ### hints only ever go from unset to set: a hint the caller gave survives annotation -/

/-- position by position, every hint set in `a` is set in `b` -/
def NanLe (a b : List Tok) : Prop :=
  ∀ (j : Nat) (t : Tok), a[j]? = some t → ∃ t', b[j]? = some t' ∧ (t.nan = true → t'.nan = true)

theorem NanLe.refl (a : List Tok) : NanLe a a := fun _ t h => ⟨t, h, id⟩

theorem NanLe.trans {a b c : List Tok} (h1 : NanLe a b) (h2 : NanLe b c) : NanLe a c := by
  intro j t h
  obtain ⟨t', h', i1⟩ := h1 j t h
  obtain ⟨t'', h'', i2⟩ := h2 j t' h'
  exact ⟨t'', h'', fun x => i2 (i1 x)⟩

theorem NanLe.setNan (toks : List Tok) (i : Nat) : NanLe toks (setNan toks i) :=
  fun j t h => setNan_nan_mono toks i j t h

theorem annotateEnLoop_nanLe (apply : Word → DS → Res × DS) (sig : List Nat) :
    ∀ (is : List Nat) (j : Nat) (b : DS) (toks : List Tok),
      NanLe toks (annotateEnLoop apply sig is j b toks)
  | [], _, _, toks => NanLe.refl toks
  | i :: rest, j, b, toks => by
    unfold annotateEnLoop
    split
    · dsimp only
      split
      · exact annotateEnLoop_nanLe apply sig rest _ _ _
      · exact (NanLe.setNan toks i).trans (annotateEnLoop_nanLe apply sig rest _ _ _)
    · exact annotateEnLoop_nanLe apply sig rest _ _ _

theorem annotateFrLoop_nanLe (apply : Word → DS → Res × DS) (isDecSep : Word → Bool) (tw : List Nat) :
    ∀ (is : List Nat) (b : DS) (toks : List Tok),
      NanLe toks (annotateFrLoop apply isDecSep tw is b toks)
  | [], _, toks => NanLe.refl toks
  | i :: rest, b, toks => by
    unfold annotateFrLoop
    split
    · exact annotateFrLoop_nanLe apply isDecSep tw rest _ _
    · dsimp only
      repeat' split
      all_goals first
        | exact annotateFrLoop_nanLe apply isDecSep tw rest _ _
        | exact (NanLe.setNan toks _).trans (annotateFrLoop_nanLe apply isDecSep tw rest _ _)

/-- **a hint set by the caller is never cleared by the annotation pass of any built-in language** -/
theorem C02_annotate_keeps_hints (cc : CharClasses) (l : Language) (toks : List Tok) :
    NanLe toks (l.annotate cc toks) := by
  cases l <;> first
    | exact NanLe.refl toks
    | exact annotateEnLoop_nanLe _ _ _ _ _ _
    | exact annotateFrLoop_nanLe _ _ _ _ _ _

/-! ### the English pass never hides anything but the word `o` -/

/-- position by position: same lowercase word, and the hint changed only where `p` holds of that word -/
def OnlyAt (p : Word → Bool) (a b : List Tok) : Prop :=
  ∀ (j : Nat) (t : Tok), a[j]? = some t →
    ∃ t', b[j]? = some t' ∧ t'.lower = t.lower ∧ (t'.nan ≠ t.nan → p t.lower = true)

theorem OnlyAt.refl (p : Word → Bool) (a : List Tok) : OnlyAt p a a :=
  fun _ t h => ⟨t, h, rfl, fun x => absurd rfl x⟩

theorem OnlyAt.trans {p : Word → Bool} {a b c : List Tok} (h1 : OnlyAt p a b) (h2 : OnlyAt p b c) :
    OnlyAt p a c := by
  intro j t h
  obtain ⟨t', h', l1, i1⟩ := h1 j t h
  obtain ⟨t'', h'', l2, i2⟩ := h2 j t' h'
  refine ⟨t'', h'', l2.trans l1, fun x => ?_⟩
  by_cases e : t'.nan = t.nan
  · rw [← l1]; exact i2 (by rw [e]; exact x)
  · exact i1 e

theorem OnlyAt.setNan (p : Word → Bool) (toks : List Tok) (i : Nat) (hp : p (lowerAt toks i) = true) :
    OnlyAt p toks (setNan toks i) := by
  intro j t h
  simp only [T2N.setNan, List.getElem?_modify, h]
  by_cases hij : i = j
  · subst hij
    have : lowerAt toks i = t.lower := by
      simp [lowerAt, List.getD_eq_getElem?_getD, h]
    rw [this] at hp
    exact ⟨{ t with nan := true }, by simp, rfl, fun _ => hp⟩
  · exact ⟨t, by simp [hij], rfl, fun x => absurd rfl x⟩

theorem annotateEnLoop_onlyAt (apply : Word → DS → Res × DS) (sig : List Nat) :
    ∀ (is : List Nat) (j : Nat) (b : DS) (toks : List Tok),
      OnlyAt (· == ['o']) toks (annotateEnLoop apply sig is j b toks)
  | [], _, _, toks => OnlyAt.refl _ toks
  | i :: rest, j, b, toks => by
    unfold annotateEnLoop
    split
    · rename_i ho
      dsimp only
      split
      · exact annotateEnLoop_onlyAt apply sig rest _ _ _
      · exact (OnlyAt.setNan _ toks i ho).trans (annotateEnLoop_onlyAt apply sig rest _ _ _)
    · exact annotateEnLoop_onlyAt apply sig rest _ _ _

/-- **the English `o` pass changes the hint of no token other than an `o`** (whatever `apply` answers): every
other word reaches the scanner exactly as the caller gave it -/
theorem C02_annotateEn_only_o (cc : CharClasses) (toks : List Tok) :
    OnlyAt (· == ['o']) toks (Language.english.annotate cc toks) :=
  annotateEnLoop_onlyAt _ _ _ _ _ _

/-! ### the French pass never hides anything but the word `neuf` -/

theorem mem_enumFrom {α} [Inhabited α] : ∀ (l : List α) (n k : Nat) (x : α), (k, x) ∈ enumFrom n l →
    n ≤ k ∧ l[k - n]? = some x
  | [], _, _, _, h => by cases h
  | y :: ys, n, k, x, h => by
    rw [enumFrom, List.mem_cons] at h
    cases h with
    | inl e =>
      have e1 : k = n := congrArg Prod.fst e
      have e2 : x = y := congrArg Prod.snd e
      subst e1; subst e2; simp
    | inr h' =>
      obtain ⟨h1, h2⟩ := mem_enumFrom ys (n + 1) k x h'
      refine ⟨by omega, ?_⟩
      have : k - n = (k - (n + 1)) + 1 := by omega
      rw [this, List.getElem?_cons_succ]; exact h2

theorem lowerAt_setNan' (toks : List Tok) (k i : Nat) : lowerAt (setNan toks k) i = lowerAt toks i := by
  have h := congrArg (fun l => (l[i]?).map (fun p : Word × Word × Nat × Nat => p.2.1)) (setNan_core toks k)
  simp only [List.getElem?_map, Option.map_map] at h
  unfold lowerAt
  rw [List.getD_eq_getElem?_getD, List.getD_eq_getElem?_getD]
  cases h1 : (setNan toks k)[i]? with
  | none =>
    cases h2 : toks[i]? with
    | none => rfl
    | some t => rw [h1, h2] at h; cases h
  | some t' =>
    cases h2 : toks[i]? with
    | none => rw [h1, h2] at h; cases h
    | some t =>
      rw [h1, h2] at h
      simp only [Option.map_some, Function.comp, core, Option.some.injEq] at h
      simpa using h

theorem annotateFrLoop_onlyAt (apply : Word → DS → Res × DS) (isDecSep : Word → Bool) (tw : List Nat)
    (p : Word → Bool) :
    ∀ (is : List Nat) (b : DS) (toks : List Tok), (∀ i ∈ is, p (lowerAt toks (tw.getD i 0)) = true) →
      OnlyAt p toks (annotateFrLoop apply isDecSep tw is b toks)
  | [], _, toks, _ => OnlyAt.refl _ toks
  | i :: rest, b, toks, hp => by
    have hrest : ∀ k ∈ rest, p (lowerAt toks (tw.getD k 0)) = true := fun k hk => hp k (by simp [hk])
    have hrest' : ∀ k ∈ rest, p (lowerAt (setNan toks (tw.getD i 0)) (tw.getD k 0)) = true := by
      intro k hk; rw [lowerAt_setNan']; exact hrest k hk
    have hi : p (lowerAt toks (tw.getD i 0)) = true := hp i (by simp)
    unfold annotateFrLoop
    split
    · exact annotateFrLoop_onlyAt apply isDecSep tw p rest _ _ hrest
    · dsimp only
      repeat' split
      all_goals first
        | exact annotateFrLoop_onlyAt apply isDecSep tw p rest _ _ hrest
        | exact (OnlyAt.setNan p toks _ hi).trans (annotateFrLoop_onlyAt apply isDecSep tw p rest _ _ hrest')

/-- **the French `neuf` pass changes the hint of no token other than a `neuf`** (whatever `apply` and
`is_decimal_sep` answer) -/
theorem C02_annotateFr_only_neuf (cc : CharClasses) (toks : List Tok) :
    OnlyAt (· == w!"neuf") toks (Language.french.annotate cc toks) := by
  show OnlyAt _ toks (annotateFr cc Fr.lang.apply Fr.lang.isDecSep toks)
  unfold annotateFr
  apply annotateFrLoop_onlyAt
  intro k hk
  obtain ⟨⟨k', i⟩, hmem, hsome⟩ := List.mem_filterMap.1 hk
  dsimp only at hsome
  split at hsome
  · rename_i hneuf
    have hk' : k' = k := by simpa using hsome
    subst hk'
    obtain ⟨_, hget⟩ := mem_enumFrom _ 0 k' i hmem
    have : (indicesWhere (fun t => !(t.lower.all (fun c => !cc.isAlphanumeric c))) toks).getD k' 0 = i := by
      rw [List.getD_eq_getElem?_getD]
      simp only [Nat.sub_zero] at hget
      rw [hget]; rfl
    rw [this]; exact hneuf
  · cases hsome

/-- the five other languages do not annotate at all -/
theorem C02_annotate_noop (cc : CharClasses) (l : Language) (hen : l ≠ .english) (hfr : l ≠ .french)
    (toks : List Tok) : l.annotate cc toks = toks := by
  cases l <;> first | rfl | exact absurd rfl hen | exact absurd rfl hfr

/-- **C02 for `replace_numbers_in_text` itself, no premise left**: for every language, threshold, text and
char classes, the kept pieces of the tokens concatenate to the original text -/
theorem C02_text_pieces_language (cc : CharClasses) (l : Language) (thr : Nat → Bool) (s : Word) :
    ∃ occs, findNumbers { lang := l.interp, cc := cc, sep := noSep, thrLt := thr } (l.annotate cc (tokenize cc s)) = .ok occs ∧
      (((spliceTrace 0 (l.annotate cc (tokenize cc s)) occs).map Piece.tokens).flatten.map (·.text)).flatten = s :=
  C02_text_pieces { lang := l.interp, cc := cc, sep := noSep, thrLt := thr } (l.annotate cc) s
    (C02_annotate_text cc l)

/-- a text in which no number is reported comes back identical, for every language -/
theorem C02_no_number_language (cc : CharClasses) (l : Language) (thr : Nat → Bool) (s : Word)
    (h : findNumbers { lang := l.interp, cc := cc, sep := noSep, thrLt := thr } (l.annotate cc (tokenize cc s)) = .ok []) :
    replaceText cc l thr s = .ok s :=
  C02_no_number { lang := l.interp, cc := cc, sep := noSep, thrLt := thr } (l.annotate cc) s
    (C02_annotate_text cc l) h

/-- the empty text comes back empty, for every language and threshold -/
theorem C02_empty_text (cc : CharClasses) (l : Language) (thr : Nat → Bool) :
    replaceText cc l thr [] = .ok [] := by
  apply C02_no_number_language
  have ht : tokenize cc [] = [] := by simp [tokenize, tokenizeWords, tokenizeAux]
  rw [ht]
  have ha : l.annotate cc [] = [] := by
    have := C02_annotate_length cc l []
    exact List.eq_nil_of_length_eq_zero (by simpa using this)
  rw [ha]
  rfl

/-- **spans of `replace_numbers_in_text` stay inside the text**: for every language, threshold, text and char
classes the occurrences found are ordered, disjoint spans over the tokens of the text — the annotation pass
neither adds nor removes a token — and there are never more tokens than characters -/
theorem C02_text_spans (cc : CharClasses) (l : Language) (thr : Nat → Bool) (s : Word) :
    ∃ occs, findNumbers { lang := l.interp, cc := cc, sep := noSep, thrLt := thr } (l.annotate cc (tokenize cc s)) = .ok occs ∧
      SpansOk 0 (tokenize cc s).length occs ∧ (tokenize cc s).length ≤ s.length := by
  obtain ⟨occs, h⟩ := C06.C06_spans { lang := l.interp, cc := cc, sep := noSep, thrLt := thr }
    (l.annotate cc (tokenize cc s))
  refine ⟨occs, h.1, ?_, ?_⟩
  · have := C06.C06_spansOk _ _ occs h.1
    rwa [C02_annotate_length] at this
  · unfold tokenize
    rw [List.length_map]
    exact Canon.C02_token_count cc s

end T2N.C02
