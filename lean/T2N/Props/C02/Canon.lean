/-
  C02 (tokenizer, canonical form) — the token boundaries are canonical: every token of any text is either a
  word token (alphanumeric first character, then word characters) or a non-empty separator token (no
  alphanumeric character); tokenizing a token again gives that token alone, so tokenizing is idempotent
  on its own output and a caller who re-tokenizes a kept span gets the same span back.
  Self-contained: imports the model only.
-/
import T2N.Model.Api

namespace T2N.C02.Canon
open T2N

variable (cc : CharClasses)

/-- a word token: first character alphanumeric, the rest word characters -/
def isWordTok : Word → Bool
  | [] => false
  | c :: cs => cc.isAlphanumeric c && cs.all (isWordChar cc)

/-- a separator token: non-empty, no alphanumeric character -/
def isSepTok (t : Word) : Bool := !t.isEmpty && t.all (fun c => !cc.isAlphanumeric c)

private theorem aux_nil (st : Option Bool) (cur : Word) :
    tokenizeAux cc st cur [] = if cur.isEmpty then [] else [cur.reverse] := by
  cases st with
  | none => rw [tokenizeAux]
  | some b => cases b <;> rw [tokenizeAux]

private theorem aux_true (cur : Word) (c : Char) (cs : Word) :
    tokenizeAux cc (some true) cur (c :: cs) =
      if isWordChar cc c then tokenizeAux cc (some true) (c :: cur) cs
      else cur.reverse :: tokenizeAux cc (some false) [c] cs := by
  rw [tokenizeAux]

private theorem aux_false (cur : Word) (c : Char) (cs : Word) :
    tokenizeAux cc (some false) cur (c :: cs) =
      if cc.isAlphanumeric c then cur.reverse :: tokenizeAux cc (some true) [c] cs
      else tokenizeAux cc (some false) (c :: cur) cs := by
  rw [tokenizeAux]

private theorem words_cons (y : Char) (ys : Word) :
    tokenizeWords cc (y :: ys) = tokenizeAux cc (some (cc.isAlphanumeric y)) [y] ys := by
  unfold tokenizeWords; rw [tokenizeAux]

private theorem wordTok_snoc (w : Word) (c : Char) (hw : isWordTok cc w = true) (hc : isWordChar cc c = true) :
    isWordTok cc (w ++ [c]) = true := by
  cases w with
  | nil => cases hw
  | cons a as =>
    simp only [isWordTok, List.cons_append, Bool.and_eq_true, List.all_append, List.all_cons, List.all_nil,
      Bool.and_true] at hw ⊢
    exact ⟨hw.1, hw.2, hc⟩

/-- the state invariant of the tokenizer loop -/
def CurOk (b : Bool) (cur : Word) : Prop :=
  if b then isWordTok cc cur.reverse = true else isSepTok cc cur = true

private theorem sepTok_reverse (cur : Word) (h : isSepTok cc cur = true) : isSepTok cc cur.reverse = true := by
  unfold isSepTok at h ⊢
  rw [Bool.and_eq_true] at h ⊢
  refine ⟨?_, by rw [List.all_reverse]; exact h.2⟩
  cases cur with
  | nil => cases h.1
  | cons a as => simp

theorem aux_canon : ∀ (s : Word) (b : Bool) (cur : Word), CurOk cc b cur →
    ∀ t ∈ tokenizeAux cc (some b) cur s, isWordTok cc t = true ∨ isSepTok cc t = true
  | [], b, cur, hcur, t, ht => by
    rw [aux_nil] at ht
    by_cases hc : cur.isEmpty = true
    · rw [if_pos hc] at ht; cases ht
    · rw [if_neg hc, List.mem_singleton] at ht
      subst ht
      cases b with
      | true => left; simpa [CurOk] using hcur
      | false => right; exact sepTok_reverse cc cur (by simpa [CurOk] using hcur)
  | c :: cs, true, cur, hcur, t, ht => by
    rw [aux_true] at ht
    have hcur' : isWordTok cc cur.reverse = true := by simpa [CurOk] using hcur
    by_cases hw : isWordChar cc c = true
    · rw [if_pos hw] at ht
      refine aux_canon cs true (c :: cur) ?_ t ht
      simp only [CurOk, if_true, List.reverse_cons]
      exact wordTok_snoc cc _ c hcur' hw
    · rw [if_neg hw, List.mem_cons] at ht
      cases ht with
      | inl h => subst h; left; exact hcur'
      | inr h =>
        refine aux_canon cs false [c] ?_ t h
        have : cc.isAlphanumeric c = false := by
          cases ha : cc.isAlphanumeric c with
          | false => rfl
          | true => exact absurd (by unfold isWordChar; rw [ha]; rfl) hw
        simp [CurOk, isSepTok, this]
  | c :: cs, false, cur, hcur, t, ht => by
    rw [aux_false] at ht
    have hcur' : isSepTok cc cur = true := by simpa [CurOk] using hcur
    by_cases hw : cc.isAlphanumeric c = true
    · rw [if_pos hw, List.mem_cons] at ht
      cases ht with
      | inl h => subst h; right; exact sepTok_reverse cc cur hcur'
      | inr h =>
        refine aux_canon cs true [c] ?_ t h
        simp [CurOk, isWordTok, hw]
    · rw [if_neg hw] at ht
      refine aux_canon cs false (c :: cur) ?_ t ht
      unfold isSepTok at hcur'
      rw [Bool.and_eq_true] at hcur'
      have : cc.isAlphanumeric c = false := by
        cases ha : cc.isAlphanumeric c with
        | false => rfl
        | true => exact absurd ha hw
      simp [CurOk, isSepTok, this, hcur'.2]

/-- **every token of every text is a word token or a non-empty separator token** (stronger than
`C02_tokens_nonempty`: a word token starts with an alphanumeric character) -/
theorem C02_token_canonical (s : Word) :
    ∀ t ∈ tokenizeWords cc s, isWordTok cc t = true ∨ isSepTok cc t = true := by
  cases s with
  | nil => intro t ht; unfold tokenizeWords at ht; rw [aux_nil] at ht; cases ht
  | cons c cs =>
    rw [words_cons]
    apply aux_canon
    cases ha : cc.isAlphanumeric c with
    | false => simp [CurOk, isSepTok, ha]
    | true => simp [CurOk, isWordTok, ha]

private theorem run_true : ∀ (cs cur : Word), cs.all (isWordChar cc) = true →
    tokenizeAux cc (some true) cur cs = tokenizeAux cc (some true) (cs.reverse ++ cur) []
  | [], cur, _ => rfl
  | x :: xs, cur, h => by
    rw [List.all_cons, Bool.and_eq_true] at h
    rw [aux_true, if_pos h.1, run_true xs (x :: cur) h.2, List.reverse_cons, List.append_assoc]
    rfl

private theorem run_false : ∀ (cs cur : Word), cs.all (fun c => !cc.isAlphanumeric c) = true →
    tokenizeAux cc (some false) cur cs = tokenizeAux cc (some false) (cs.reverse ++ cur) []
  | [], cur, _ => rfl
  | x :: xs, cur, h => by
    rw [List.all_cons, Bool.and_eq_true] at h
    have hx : ¬ cc.isAlphanumeric x = true := by
      cases ha : cc.isAlphanumeric x with
      | false => simp
      | true => rw [ha] at h; exact absurd h.1 (by simp)
    rw [aux_false, if_neg hx, run_false xs (x :: cur) h.2, List.reverse_cons, List.append_assoc]
    rfl

private theorem aux_done (b : Bool) (c : Char) (cs : Word) :
    tokenizeAux cc (some b) (cs.reverse ++ [c]) [] = [c :: cs] := by
  rw [aux_nil]
  have : (cs.reverse ++ [c]).isEmpty = false := by cases h : cs.reverse <;> rfl
  rw [this]
  simp

/-- a word token, tokenized, is itself -/
theorem tokenize_wordTok (t : Word) (h : isWordTok cc t = true) : tokenizeWords cc t = [t] := by
  cases t with
  | nil => cases h
  | cons c cs =>
    unfold isWordTok at h
    rw [Bool.and_eq_true] at h
    rw [words_cons, h.1, run_true cc cs [c] h.2, aux_done]

/-- a separator token, tokenized, is itself -/
theorem tokenize_sepTok (t : Word) (h : isSepTok cc t = true) : tokenizeWords cc t = [t] := by
  cases t with
  | nil => cases h
  | cons c cs =>
    unfold isSepTok at h
    rw [Bool.and_eq_true, List.all_cons, Bool.and_eq_true] at h
    have hc : cc.isAlphanumeric c = false := by
      cases ha : cc.isAlphanumeric c with
      | false => rfl
      | true => rw [ha] at h; exact absurd h.2.1 (by simp)
    rw [words_cons, hc, run_false cc cs [c] h.2.2, aux_done]

/-- **token boundaries are canonical**: re-tokenizing any token of any text gives that token alone -/
theorem C02_retokenize_token (s : Word) : ∀ t ∈ tokenizeWords cc s, tokenizeWords cc t = [t] := by
  intro t ht
  cases C02_token_canonical cc s t ht with
  | inl h => exact tokenize_wordTok cc t h
  | inr h => exact tokenize_sepTok cc t h

/-- the same on `BasicToken`s: the text of every token of `tokenize` is a fixed point of the tokenizer -/
theorem C02_retokenize_basic (s : Word) : ∀ t ∈ tokenize cc s, tokenize cc t.text = [t] := by
  intro t ht
  unfold tokenize at ht ⊢
  obtain ⟨w, hw, rfl⟩ := List.mem_map.1 ht
  show List.map (basicToken cc) (tokenizeWords cc w) = [basicToken cc w]
  rw [C02_retokenize_token cc s w hw]; rfl

/-! ### maximal runs: word tokens and separator tokens strictly alternate -/

/-- `alternates b l`: the tokens of `l` are alternately word tokens and not, starting with kind `b` -/
def alternates : Bool → List Word → Bool
  | _, [] => true
  | b, t :: ts => (isWordTok cc t == b) && alternates (!b) ts

private theorem sep_not_word (t : Word) (h : isSepTok cc t = true) : isWordTok cc t = false := by
  cases t with
  | nil => rfl
  | cons c cs =>
    unfold isSepTok at h
    rw [Bool.and_eq_true, List.all_cons, Bool.and_eq_true] at h
    have hc : cc.isAlphanumeric c = false := by
      cases ha : cc.isAlphanumeric c with
      | false => rfl
      | true => rw [ha] at h; exact absurd h.2.1 (by simp)
    simp [isWordTok, hc]

theorem aux_alt : ∀ (s : Word) (b : Bool) (cur : Word), CurOk cc b cur →
    alternates cc b (tokenizeAux cc (some b) cur s) = true
  | [], b, cur, hcur => by
    rw [aux_nil]
    by_cases hc : cur.isEmpty = true
    · rw [if_pos hc]; rfl
    · rw [if_neg hc]
      cases b with
      | true =>
        have : isWordTok cc cur.reverse = true := by simpa [CurOk] using hcur
        simp [alternates, this]
      | false =>
        have : isSepTok cc cur = true := by simpa [CurOk] using hcur
        simp [alternates, sep_not_word cc _ (sepTok_reverse cc cur this)]
  | c :: cs, true, cur, hcur => by
    rw [aux_true]
    have hcur' : isWordTok cc cur.reverse = true := by simpa [CurOk] using hcur
    by_cases hw : isWordChar cc c = true
    · rw [if_pos hw]
      refine aux_alt cs true (c :: cur) ?_
      simp only [CurOk, if_true, List.reverse_cons]
      exact wordTok_snoc cc _ c hcur' hw
    · rw [if_neg hw]
      have hc : cc.isAlphanumeric c = false := by
        cases ha : cc.isAlphanumeric c with
        | false => rfl
        | true => exact absurd (by unfold isWordChar; rw [ha]; rfl) hw
      have ih := aux_alt cs false [c] (by simp [CurOk, isSepTok, hc])
      simp [alternates, hcur', ih]
  | c :: cs, false, cur, hcur => by
    rw [aux_false]
    have hcur' : isSepTok cc cur = true := by simpa [CurOk] using hcur
    by_cases hw : cc.isAlphanumeric c = true
    · rw [if_pos hw]
      have ih := aux_alt cs true [c] (by simp [CurOk, isWordTok, hw])
      simp [alternates, sep_not_word cc _ (sepTok_reverse cc cur hcur'), ih]
    · rw [if_neg hw]
      refine aux_alt cs false (c :: cur) ?_
      unfold isSepTok at hcur'
      rw [Bool.and_eq_true] at hcur'
      have : cc.isAlphanumeric c = false := by
        cases ha : cc.isAlphanumeric c with
        | false => rfl
        | true => exact absurd ha hw
      simp [CurOk, isSepTok, this, hcur'.2]

/-- **runs are maximal**: in the tokens of any text, word tokens and separator tokens strictly alternate,
the first token being a word token iff the text starts with an alphanumeric character — two adjacent
tokens are never of the same kind, so no run is ever cut in two -/
theorem C02_tokens_alternate (c : Char) (cs : Word) :
    alternates cc (cc.isAlphanumeric c) (tokenizeWords cc (c :: cs)) = true := by
  rw [words_cons]
  apply aux_alt
  cases ha : cc.isAlphanumeric c with
  | false => simp [CurOk, isSepTok, ha]
  | true => simp [CurOk, isWordTok, ha]

theorem C02_tokens_alternate' (s : Word) : ∃ b, alternates cc b (tokenizeWords cc s) = true := by
  cases s with
  | nil => exact ⟨true, by unfold tokenizeWords; rw [aux_nil]; rfl⟩
  | cons c cs => exact ⟨_, C02_tokens_alternate cc c cs⟩

/-- hence adjacent tokens differ in kind -/
theorem alternates_adjacent : ∀ (b : Bool) (l : List Word), alternates cc b l = true →
    ∀ (i : Nat) (h : i + 1 < l.length), isWordTok cc (l[i]'(by omega)) ≠ isWordTok cc l[i + 1]
  | _, [], _, i, h => by simp at h
  | _, [_], _, i, h => by simp at h
  | b, t :: u :: l, hl, 0, _ => by
    simp only [alternates, Bool.and_eq_true, beq_iff_eq] at hl
    simp only [List.getElem_cons_zero, List.getElem_cons_succ]
    rw [hl.1, hl.2.1]; cases b <;> simp
  | b, t :: u :: l, hl, i + 1, h => by
    simp only [alternates, Bool.and_eq_true] at hl
    have := alternates_adjacent (!b) (u :: l) (by simp only [alternates, Bool.and_eq_true]; exact hl.2) i
      (by simpa using h)
    simpa using this

theorem C02_adjacent_tokens_differ (s : Word) (i : Nat) (h : i + 1 < (tokenizeWords cc s).length) :
    isWordTok cc ((tokenizeWords cc s)[i]'(by omega)) ≠ isWordTok cc (tokenizeWords cc s)[i + 1] := by
  obtain ⟨b, hb⟩ := C02_tokens_alternate' cc s
  exact alternates_adjacent cc b _ hb i h

/-! ### the tokenizer is characterised by its output shape: any decomposition of a text into maximal runs
is the tokenizer's answer -/

private theorem run_true' : ∀ (cs cur rest : Word), cs.all (isWordChar cc) = true →
    tokenizeAux cc (some true) cur (cs ++ rest) = tokenizeAux cc (some true) (cs.reverse ++ cur) rest
  | [], cur, rest, _ => rfl
  | x :: xs, cur, rest, h => by
    rw [List.all_cons, Bool.and_eq_true] at h
    rw [List.cons_append, aux_true, if_pos h.1, run_true' xs (x :: cur) rest h.2, List.reverse_cons,
      List.append_assoc]
    rfl

private theorem run_false' : ∀ (cs cur rest : Word), cs.all (fun c => !cc.isAlphanumeric c) = true →
    tokenizeAux cc (some false) cur (cs ++ rest) = tokenizeAux cc (some false) (cs.reverse ++ cur) rest
  | [], cur, rest, _ => rfl
  | x :: xs, cur, rest, h => by
    rw [List.all_cons, Bool.and_eq_true] at h
    have hx : ¬ cc.isAlphanumeric x = true := by
      cases ha : cc.isAlphanumeric x with
      | false => simp
      | true => rw [ha] at h; exact absurd h.1 (by simp)
    rw [List.cons_append, aux_false, if_neg hx, run_false' xs (x :: cur) rest h.2, List.reverse_cons,
      List.append_assoc]
    rfl

/-- `isRuns b l`: `l` is a list of maximal runs, the first of kind `b` (`true` = word token): word tokens
and separator tokens alternate, and the token after a word token does not start with a character that
could have continued the word (`-`, `'`). -/
def isRuns : Bool → List Word → Bool
  | _, [] => true
  | true, t :: ts =>
    isWordTok cc t && (match ts with | [] => true | u :: _ => !(u.head?.any (isWordChar cc))) && isRuns false ts
  | false, t :: ts => isSepTok cc t && isRuns true ts

/-- **any decomposition into maximal runs is the tokenizer's answer** -/
theorem tokenize_of_isRuns : ∀ (l : List Word) (b : Bool), isRuns cc b l = true →
    tokenizeWords cc l.flatten = l
  | [], _, _ => by unfold tokenizeWords; rw [List.flatten_nil, aux_nil]; rfl
  | [t], true, h => by
    simp only [isRuns, Bool.and_true] at h
    rw [List.flatten_cons, List.flatten_nil, List.append_nil]; exact tokenize_wordTok cc t h
  | [t], false, h => by
    simp only [isRuns, Bool.and_true] at h
    rw [List.flatten_cons, List.flatten_nil, List.append_nil]; exact tokenize_sepTok cc t h
  | t :: u :: ts, true, h => by
    simp only [isRuns, Bool.and_eq_true] at h
    obtain ⟨⟨ht, hu⟩, hs, hrest⟩ := h
    have ih := tokenize_of_isRuns (u :: ts) false (by simp only [isRuns, Bool.and_eq_true]; exact ⟨hs, hrest⟩)
    cases t with
    | nil => cases ht
    | cons c cs =>
      cases u with
      | nil => cases hs
      | cons d ds =>
        unfold isWordTok at ht
        rw [Bool.and_eq_true] at ht
        have hd : ¬ isWordChar cc d = true := by simpa using hu
        have hda : cc.isAlphanumeric d = false := by
          cases ha : cc.isAlphanumeric d with
          | false => rfl
          | true => exact absurd (by unfold isWordChar; rw [ha]; rfl) hd
        have e : (List.flatten ((c :: cs) :: (d :: ds) :: ts)) = c :: (cs ++ d :: (ds ++ ts.flatten)) := by
          simp
        have e2 : (List.flatten ((d :: ds) :: ts)) = d :: (ds ++ ts.flatten) := by simp
        rw [e2, words_cons, hda] at ih
        rw [e, words_cons, ht.1, run_true' cc cs [c] _ ht.2, aux_true, if_neg hd, ih]
        simp
  | t :: u :: ts, false, h => by
    simp only [isRuns, Bool.and_eq_true] at h
    obtain ⟨ht, hrest⟩ := h
    have ih := tokenize_of_isRuns (u :: ts) true (by simp only [isRuns, Bool.and_eq_true]; exact hrest)
    obtain ⟨⟨hu, _⟩, _⟩ := hrest
    cases t with
    | nil => cases ht
    | cons c cs =>
      cases u with
      | nil => cases hu
      | cons d ds =>
        unfold isSepTok at ht
        rw [Bool.and_eq_true, List.all_cons, Bool.and_eq_true] at ht
        unfold isWordTok at hu
        rw [Bool.and_eq_true] at hu
        have hc : cc.isAlphanumeric c = false := by
          cases ha : cc.isAlphanumeric c with
          | false => rfl
          | true => rw [ha] at ht; exact absurd ht.2.1 (by simp)
        have e : (List.flatten ((c :: cs) :: (d :: ds) :: ts)) = c :: (cs ++ d :: (ds ++ ts.flatten)) := by
          simp
        have e2 : (List.flatten ((d :: ds) :: ts)) = d :: (ds ++ ts.flatten) := by simp
        rw [e2, words_cons, hu.1] at ih
        rw [e, words_cons, hc, run_false' cc cs [c] _ ht.2.2, aux_false, if_pos hu.1, ih]
        simp

/-- the statement on the caller's side: if a text is cut into maximal runs, that cut is what `tokenize`
returns — there is no other tokenization with this shape -/
theorem C02_tokenizer_unique (s : Word) (l : List Word) (b : Bool) (hflat : l.flatten = s)
    (hruns : isRuns cc b l = true) : tokenizeWords cc s = l := by
  rw [← hflat]; exact tokenize_of_isRuns cc l b hruns

/-- the first token produced from a non-empty current run starts with the first character of that run -/
private theorem aux_head : ∀ (s : Word) (b : Bool) (a : Char) (cur : Word),
    ∃ u us, tokenizeAux cc (some b) (a :: cur) s = u :: us ∧ u.head? = (a :: cur).getLast?
  | [], b, a, cur => by
    refine ⟨(a :: cur).reverse, [], ?_, ?_⟩
    · rw [aux_nil]; rfl
    · rw [List.head?_reverse]
  | c :: cs, true, a, cur => by
    rw [aux_true]
    by_cases hw : isWordChar cc c = true
    · rw [if_pos hw]
      obtain ⟨u, us, h1, h2⟩ := aux_head cs true c (a :: cur)
      exact ⟨u, us, h1, by rw [h2, List.getLast?_cons_cons]⟩
    · rw [if_neg hw]
      exact ⟨_, _, rfl, by rw [List.head?_reverse]⟩
  | c :: cs, false, a, cur => by
    rw [aux_false]
    by_cases hw : cc.isAlphanumeric c = true
    · rw [if_pos hw]
      exact ⟨_, _, rfl, by rw [List.head?_reverse]⟩
    · rw [if_neg hw]
      obtain ⟨u, us, h1, h2⟩ := aux_head cs false c (a :: cur)
      exact ⟨u, us, h1, by rw [h2, List.getLast?_cons_cons]⟩

theorem aux_isRuns : ∀ (s : Word) (b : Bool) (cur : Word), CurOk cc b cur →
    isRuns cc b (tokenizeAux cc (some b) cur s) = true
  | [], b, cur, hcur => by
    rw [aux_nil]
    by_cases hc : cur.isEmpty = true
    · rw [if_pos hc]; cases b <;> rfl
    · rw [if_neg hc]
      cases b with
      | true =>
        have : isWordTok cc cur.reverse = true := by simpa [CurOk] using hcur
        simp [isRuns, this]
      | false =>
        have : isSepTok cc cur = true := by simpa [CurOk] using hcur
        simp [isRuns, sepTok_reverse cc cur this]
  | c :: cs, true, cur, hcur => by
    rw [aux_true]
    have hcur' : isWordTok cc cur.reverse = true := by simpa [CurOk] using hcur
    by_cases hw : isWordChar cc c = true
    · rw [if_pos hw]
      refine aux_isRuns cs true (c :: cur) ?_
      simp only [CurOk, if_true, List.reverse_cons]
      exact wordTok_snoc cc _ c hcur' hw
    · rw [if_neg hw]
      have hc : cc.isAlphanumeric c = false := by
        cases ha : cc.isAlphanumeric c with
        | false => rfl
        | true => exact absurd (by unfold isWordChar; rw [ha]; rfl) hw
      have ih := aux_isRuns cs false [c] (by simp [CurOk, isSepTok, hc])
      obtain ⟨u, us, h1, h2⟩ := aux_head cc cs false c []
      rw [h1] at ih ⊢
      have hw' : isWordChar cc c = false := by simpa using hw
      simp only [isRuns, Bool.and_eq_true] at ih ⊢
      refine ⟨⟨hcur', ?_⟩, ih⟩
      rw [h2]; simp [hw']
  | c :: cs, false, cur, hcur => by
    rw [aux_false]
    have hcur' : isSepTok cc cur = true := by simpa [CurOk] using hcur
    by_cases hw : cc.isAlphanumeric c = true
    · rw [if_pos hw]
      have ih := aux_isRuns cs true [c] (by simp [CurOk, isWordTok, hw])
      simp only [isRuns, Bool.and_eq_true]
      exact ⟨sepTok_reverse cc cur hcur', ih⟩
    · rw [if_neg hw]
      refine aux_isRuns cs false (c :: cur) ?_
      unfold isSepTok at hcur'
      rw [Bool.and_eq_true] at hcur'
      have : cc.isAlphanumeric c = false := by
        cases ha : cc.isAlphanumeric c with
        | false => rfl
        | true => exact absurd ha hw
      simp [CurOk, isSepTok, this, hcur'.2]

/-- **the tokenizer's answer is a decomposition into maximal runs** -/
theorem C02_tokenize_isRuns (c : Char) (cs : Word) :
    isRuns cc (cc.isAlphanumeric c) (tokenizeWords cc (c :: cs)) = true := by
  rw [words_cons]
  apply aux_isRuns
  cases ha : cc.isAlphanumeric c with
  | false => simp [CurOk, isSepTok, ha]
  | true => simp [CurOk, isWordTok, ha]

/-- **the tokenizer, characterised exactly**: a list of tokens is the tokenization of a non-empty text
iff it concatenates to the text and is a list of maximal runs starting with the kind of the text's first
character. Nothing else about `Tokenize` is observable. -/
theorem C02_tokenizer_spec (c : Char) (cs : Word) (l : List Word) :
    tokenizeWords cc (c :: cs) = l ↔ (l.flatten = c :: cs ∧ isRuns cc (cc.isAlphanumeric c) l = true) := by
  constructor
  · intro h; subst h
    refine ⟨?_, C02_tokenize_isRuns cc c cs⟩
    rw [words_cons]
    have : ∀ (s : Word) (b : Bool) (cur : Word), (tokenizeAux cc (some b) cur s).flatten = cur.reverse ++ s := by
      intro s
      induction s with
      | nil =>
        intro b cur; rw [aux_nil]
        by_cases hc : cur.isEmpty = true
        · rw [if_pos hc]; cases cur with
          | nil => rfl
          | cons _ _ => cases hc
        · rw [if_neg hc]; simp
      | cons x xs ih =>
        intro b cur
        cases b with
        | true =>
          rw [aux_true]; split
          · rw [ih]; simp
          · rw [List.flatten_cons, ih]; simp
        | false =>
          rw [aux_false]; split
          · rw [List.flatten_cons, ih]; simp
          · rw [ih]; simp
    rw [this]; rfl
  · intro ⟨h1, h2⟩
    exact C02_tokenizer_unique cc _ l _ h1 h2

/-- what `tokenize` hands to the scanner: each `BasicToken` carries the run as its text, the lowercase copy
of exactly that text, and no hint (never NaN, no time stamps) — the rewriting of the text-level entry point
never depends on a hint -/
theorem C02_basic_tokens (s : Word) : ∀ t ∈ tokenize cc s,
    t.text ∈ tokenizeWords cc s ∧ t.lower = cc.lowerStr t.text ∧ t.nan = false ∧ t.tstart = 0 ∧ t.tend = 0 := by
  intro t ht
  unfold tokenize at ht
  obtain ⟨w, hw, rfl⟩ := List.mem_map.1 ht
  exact ⟨hw, rfl, rfl, rfl, rfl⟩

/-- the texts of `tokenize` are exactly the runs, in order -/
theorem C02_basic_texts (s : Word) : (tokenize cc s).map (·.text) = tokenizeWords cc s := by
  unfold tokenize
  rw [List.map_map]
  have : ((fun t : Tok => t.text) ∘ basicToken cc) = id := by funext w; rfl
  rw [this, List.map_id]

/-! ### no blow-up: never more tokens than characters -/

private theorem length_le_flatten : ∀ l : List Word, (∀ t ∈ l, t ≠ []) → l.length ≤ l.flatten.length
  | [], _ => Nat.le_refl _
  | t :: ts, h => by
    have ih := length_le_flatten ts (fun u hu => h u (by simp [hu]))
    have ht : 1 ≤ t.length := by
      cases t with
      | nil => exact absurd rfl (h [] (by simp))
      | cons _ _ => simp
    simp only [List.length_cons, List.flatten_cons, List.length_append]
    omega

/-- the number of tokens never exceeds the number of characters of the text -/
theorem C02_token_count (s : Word) : (tokenizeWords cc s).length ≤ s.length := by
  cases s with
  | nil => unfold tokenizeWords; rw [aux_nil]; simp
  | cons c cs =>
    have hflat := ((C02_tokenizer_spec cc c cs _).1 rfl).1
    have hne : ∀ t ∈ tokenizeWords cc (c :: cs), t ≠ [] := by
      intro t ht
      cases C02_token_canonical cc _ t ht with
      | inl h => intro e; subst e; cases h
      | inr h => intro e; subst e; cases h
    have := length_le_flatten _ hne
    rw [hflat] at this
    exact this

end T2N.C02.Canon
