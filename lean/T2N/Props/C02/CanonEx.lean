/-
  C02 (tokenizer) — non-vacuity of `Props/C02/Canon.lean`: the premises of `C02_tokenizer_unique` are met by a
  concrete decomposition with every kind of boundary (hyphen and apostrophe inside a word, a separator run
  starting with a hyphen is NOT accepted after a word), evaluated by the kernel on explicit char classes.
-/
import T2N.Props.C02.Canon
import T2N.Lemmas.SimpleCC

namespace T2N.C02.Canon
open T2N

/-- a decomposition into maximal runs … -/
example : isRuns simpleCC true [w!"twenty-one", w!", ", w!"o'clock", w!" ", w!"x-", w!" !"] = true := by
  decide +kernel

/-- … is what the tokenizer returns (instance of `C02_tokenizer_unique`, premises discharged by evaluation) -/
example : tokenizeWords simpleCC w!"twenty-one, o'clock x- !" =
    [w!"twenty-one", w!", ", w!"o'clock", w!" ", w!"x-", w!" !"] :=
  C02_tokenizer_unique simpleCC _ _ true (by decide +kernel) (by decide +kernel)

/-- a cut inside a run is not a list of maximal runs: `x` followed by `- ` (the hyphen could have continued
the word) is rejected by `isRuns`, and indeed is not the tokenizer's answer -/
example : isRuns simpleCC true [w!"x", w!"- ", w!"y"] = false := by decide +kernel
example : tokenizeWords simpleCC w!"x- y" = [w!"x-", w!" ", w!"y"] := by decide +kernel

/-- separator first -/
example : isRuns simpleCC false [w!"  ", w!"a"] = true := by decide +kernel

end T2N.C02.Canon
