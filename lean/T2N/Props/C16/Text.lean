/-
  C16 (text level) — `k` times the zero word followed by the spelled cardinal `0 < n < 10^12`, standing in a
  sentence of ordinary words joined by single spaces, is REWRITTEN by `replace_numbers_in_text` as `k` digits `0`
  followed by the decimal digits of `n` — one number, the other words kept:
  `replaceText cc <language> thr (joinWords (pre ++ (zeros ++ spelling) ++ post)) = .ok (joinWords (pre ++ [0…0 digits] ++ post))`.

  * character classes: any `cc` satisfying `TextLaws` and `AlphaLaws` (T2N/Lemmas/C01Text.lean; `simpleCC` does);
  * `pre` / `post`: `Ordinary` words (refused by the language in every state, single lower-case tokens);
  * threshold: EVERY threshold when `k ≥ 1` (the text has at least two characters, so the number is never "small");
    for `k = 0` the statement is C01 (text level) and carries its hypothesis `n ≥ 10 ∨ thr n = false`;
  * German: the `ein Million / ein Milliarde` variants only (as everywhere); French: when `k = 0` and `n = 9`
    the hypothesis of `C01_text_fr` on the words before `neuf`; with `k ≥ 1` the `neuf` has a number-word
    neighbour (`zéro`) and no hypothesis is needed.
  Proofs: T2N/Lemmas/TextCor.lean (`replaceText_zeros`), from the validator theorems `C16_validate_<l>_all`.
-/
import T2N.Props.C16
import T2N.Props.C01.Text
import T2N.Lemmas.TextCor
import T2N.Lemmas.TextCor.En
import T2N.Lemmas.TextCor.Es
import T2N.Lemmas.TextCor.Pt
import T2N.Lemmas.TextCor.It
import T2N.Lemmas.TextCor.Nl
import T2N.Lemmas.TextCor.De
import T2N.Lemmas.TextCor.Fr

namespace T2N.C16
open T2N T2N.Lift T2N.Spec T2N.C01Text T2N.TextCor

/-! ### English -/

/-- **C16 (en), text level** -/
theorem C16_text_en {cc : CharClasses} (L : TextLaws cc) (A : AlphaLaws cc) (thr : Nat → Bool)
    (v : Var) (k n : Nat) (hn : 0 < n) (h : n < 10 ^ 12) (hthr : k = 0 → n < 10 → thr n = false)
    (pre post : List Word) (hpre : ∀ w ∈ pre, Ordinary cc En.lang w) (hpost : ∀ w ∈ post, Ordinary cc En.lang w) :
    replaceText cc .english thr
        (joinWords (pre ++ (List.replicate k Spec.En.zeroWord ++ Spec.En.cardinal v n) ++ post)) =
      .ok (joinWords (pre ++ [List.replicate k '0' ++ decChars n] ++ post)) := by
  by_cases hk : k = 0
  · subst hk
    exact T2N.C01.C01_text_en L A thr v n h (hthr rfl) pre post hpre hpost
  · refine replaceText_zeros L A .english thr (by simp [Language.interp, allLangs]) T2N.C07.C07_langAgree_en
      Spec.En.zeroWord (Spec.En.cardinal v n) k n (by omega) (C16_validate_en_all' v k n hn h) (by decide) (by decide)
      (C01Text.En.cardinal_over v n) pre post hpre hpost ?_
    show annotateEn cc En.lang.apply _ = _
    apply annotateEn_wordTokens
    intro w hw
    rw [List.mem_append, List.mem_append, List.mem_append] at hw
    rcases hw with (hw | hw | hw) | hw
    · exact ne_of_rejects (hpre w hw).1 (by decide)
    · rw [List.eq_of_mem_replicate hw]; decide
    · exact C01Text.En.cardinal_not_o v n w hw
    · exact ne_of_rejects (hpost w hw).1 (by decide)

/-- explicit classes: every threshold when there is at least one zero -/
theorem C16_text_en_simple (thr : Nat → Bool) (v : Var) (k n : Nat) (hk : 0 < k) (hn : 0 < n) (h : n < 10 ^ 12)
    (pre post : List Word)
    (hpre : ∀ w ∈ pre, Ordinary simpleCC En.lang w) (hpost : ∀ w ∈ post, Ordinary simpleCC En.lang w) :
    replaceText simpleCC .english thr
        (joinWords (pre ++ (List.replicate k Spec.En.zeroWord ++ Spec.En.cardinal v n) ++ post)) =
      .ok (joinWords (pre ++ [List.replicate k '0' ++ decChars n] ++ post)) :=
  C16_text_en simple_textLaws simple_alphaLaws thr v k n hn h (fun h0 => by omega) pre post hpre hpost

/-- the hypotheses are satisfiable, whatever the threshold (here: everything is "small") -/
example : replaceText simpleCC .english (fun _ => true)
    (joinWords ([w!"room"] ++ (List.replicate 2 Spec.En.zeroWord ++ Spec.En.cardinal (fun _ => 0) 7) ++ [w!"please"])) =
    .ok (joinWords ([w!"room"] ++ [List.replicate 2 '0' ++ decChars 7] ++ [w!"please"])) :=
  C16_text_en_simple _ _ 2 7 (by decide) (by decide) (by decide) _ _
    (fun w hw => by
      have : w = w!"room" := by simpa using hw
      subst this
      exact T2N.C01.C01_text_en_ordinary _ (fun _ => rfl) (fun _ => rfl) rfl (by decide))
    (fun w hw => by
      have : w = w!"please" := by simpa using hw
      subst this
      exact T2N.C01.C01_text_en_ordinary _ (fun _ => rfl) (fun _ => rfl) rfl (by decide))

/-- the same kind of sentence as plain strings -/
example : T2N.C01.C01_text_is (replaceText simpleCC .english (fun _ => true) "room zero zero seven please".toList)
    "room 007 please" = true := by decide +kernel

/-! ### Spanish -/

/-- **C16 (es), text level** -/
theorem C16_text_es {cc : CharClasses} (L : TextLaws cc) (A : AlphaLaws cc) (thr : Nat → Bool)
    (v : Var) (k n : Nat) (hn : 0 < n) (h : n < 10 ^ 12) (hthr : k = 0 → n < 10 → thr n = false)
    (pre post : List Word) (hpre : ∀ w ∈ pre, Ordinary cc Es.lang w) (hpost : ∀ w ∈ post, Ordinary cc Es.lang w) :
    replaceText cc .spanish thr
        (joinWords (pre ++ (List.replicate k Spec.Es.zeroWord ++ Spec.Es.cardinal v n) ++ post)) =
      .ok (joinWords (pre ++ [List.replicate k '0' ++ decChars n] ++ post)) :=
  TextCor.Es.text_c16 L A thr v k n hn h hthr pre post hpre hpost

/-- explicit classes: every threshold when there is at least one zero -/
theorem C16_text_es_simple (thr : Nat → Bool) (v : Var) (k n : Nat) (hk : 0 < k) (hn : 0 < n) (h : n < 10 ^ 12)
    (pre post : List Word)
    (hpre : ∀ w ∈ pre, Ordinary simpleCC Es.lang w) (hpost : ∀ w ∈ post, Ordinary simpleCC Es.lang w) :
    replaceText simpleCC .spanish thr
        (joinWords (pre ++ (List.replicate k Spec.Es.zeroWord ++ Spec.Es.cardinal v n) ++ post)) =
      .ok (joinWords (pre ++ [List.replicate k '0' ++ decChars n] ++ post)) :=
  C16_text_es simple_textLaws simple_alphaLaws thr v k n hn h (fun h0 => by omega) pre post hpre hpost

/-! ### Portuguese -/

/-- **C16 (pt), text level** -/
theorem C16_text_pt {cc : CharClasses} (L : TextLaws cc) (A : AlphaLaws cc) (thr : Nat → Bool)
    (v : Var) (k n : Nat) (hn : 0 < n) (h : n < 10 ^ 12) (hthr : k = 0 → n < 10 → thr n = false)
    (pre post : List Word) (hpre : ∀ w ∈ pre, Ordinary cc Pt.lang w) (hpost : ∀ w ∈ post, Ordinary cc Pt.lang w) :
    replaceText cc .portuguese thr
        (joinWords (pre ++ (List.replicate k Spec.Pt.zeroWord ++ Spec.Pt.cardinal v n) ++ post)) =
      .ok (joinWords (pre ++ [List.replicate k '0' ++ decChars n] ++ post)) :=
  TextCor.Pt.text_c16 L A thr v k n hn h hthr pre post hpre hpost

/-- explicit classes: every threshold when there is at least one zero -/
theorem C16_text_pt_simple (thr : Nat → Bool) (v : Var) (k n : Nat) (hk : 0 < k) (hn : 0 < n) (h : n < 10 ^ 12)
    (pre post : List Word)
    (hpre : ∀ w ∈ pre, Ordinary simpleCC Pt.lang w) (hpost : ∀ w ∈ post, Ordinary simpleCC Pt.lang w) :
    replaceText simpleCC .portuguese thr
        (joinWords (pre ++ (List.replicate k Spec.Pt.zeroWord ++ Spec.Pt.cardinal v n) ++ post)) =
      .ok (joinWords (pre ++ [List.replicate k '0' ++ decChars n] ++ post)) :=
  C16_text_pt simple_textLaws simple_alphaLaws thr v k n hn h (fun h0 => by omega) pre post hpre hpost

/-! ### Italian -/

/-- **C16 (it), text level** -/
theorem C16_text_it {cc : CharClasses} (L : TextLaws cc) (A : AlphaLaws cc) (thr : Nat → Bool)
    (v : Var) (k n : Nat) (hn : 0 < n) (h : n < 10 ^ 12) (hthr : k = 0 → n < 10 → thr n = false)
    (pre post : List Word) (hpre : ∀ w ∈ pre, Ordinary cc It.lang w) (hpost : ∀ w ∈ post, Ordinary cc It.lang w) :
    replaceText cc .italian thr
        (joinWords (pre ++ (List.replicate k Spec.It.zeroWord ++ Spec.It.cardinal v n) ++ post)) =
      .ok (joinWords (pre ++ [List.replicate k '0' ++ decChars n] ++ post)) :=
  TextCor.It.text_c16 L A thr v k n hn h hthr pre post hpre hpost

/-- explicit classes: every threshold when there is at least one zero -/
theorem C16_text_it_simple (thr : Nat → Bool) (v : Var) (k n : Nat) (hk : 0 < k) (hn : 0 < n) (h : n < 10 ^ 12)
    (pre post : List Word)
    (hpre : ∀ w ∈ pre, Ordinary simpleCC It.lang w) (hpost : ∀ w ∈ post, Ordinary simpleCC It.lang w) :
    replaceText simpleCC .italian thr
        (joinWords (pre ++ (List.replicate k Spec.It.zeroWord ++ Spec.It.cardinal v n) ++ post)) =
      .ok (joinWords (pre ++ [List.replicate k '0' ++ decChars n] ++ post)) :=
  C16_text_it simple_textLaws simple_alphaLaws thr v k n hn h (fun h0 => by omega) pre post hpre hpost

/-! ### Dutch -/

/-- **C16 (nl), text level** -/
theorem C16_text_nl {cc : CharClasses} (L : TextLaws cc) (A : AlphaLaws cc) (thr : Nat → Bool)
    (v : Var) (k n : Nat) (hn : 0 < n) (h : n < 10 ^ 12) (hthr : k = 0 → n < 10 → thr n = false)
    (pre post : List Word) (hpre : ∀ w ∈ pre, Ordinary cc Nl.lang w) (hpost : ∀ w ∈ post, Ordinary cc Nl.lang w) :
    replaceText cc .dutch thr
        (joinWords (pre ++ (List.replicate k Spec.Nl.zeroWord ++ Spec.Nl.cardinal v n) ++ post)) =
      .ok (joinWords (pre ++ [List.replicate k '0' ++ decChars n] ++ post)) :=
  TextCor.Nl.text_c16 L A thr v k n hn h hthr pre post hpre hpost

/-- explicit classes: every threshold when there is at least one zero -/
theorem C16_text_nl_simple (thr : Nat → Bool) (v : Var) (k n : Nat) (hk : 0 < k) (hn : 0 < n) (h : n < 10 ^ 12)
    (pre post : List Word)
    (hpre : ∀ w ∈ pre, Ordinary simpleCC Nl.lang w) (hpost : ∀ w ∈ post, Ordinary simpleCC Nl.lang w) :
    replaceText simpleCC .dutch thr
        (joinWords (pre ++ (List.replicate k Spec.Nl.zeroWord ++ Spec.Nl.cardinal v n) ++ post)) =
      .ok (joinWords (pre ++ [List.replicate k '0' ++ decChars n] ++ post)) :=
  C16_text_nl simple_textLaws simple_alphaLaws thr v k n hn h (fun h0 => by omega) pre post hpre hpost

/-! ### German -/

/-- **C16 (de), text level** (the `ein Million / ein Milliarde` variants, as everywhere) -/
theorem C16_text_de {cc : CharClasses} (L : TextLaws cc) (A : AlphaLaws cc) (thr : Nat → Bool)
    (v : Var) (k n : Nat) (hn : 0 < n) (h : n < 10 ^ 12) (hv : flag v (cp 2 5) = true ∧ flag v (cp 3 5) = true) (hthr : k = 0 → n < 10 → thr n = false)
    (pre post : List Word) (hpre : ∀ w ∈ pre, Ordinary cc De.lang w) (hpost : ∀ w ∈ post, Ordinary cc De.lang w) :
    replaceText cc .german thr
        (joinWords (pre ++ (List.replicate k Spec.De.zeroWord ++ Spec.De.cardinal v n) ++ post)) =
      .ok (joinWords (pre ++ [List.replicate k '0' ++ decChars n] ++ post)) :=
  TextCor.De.text_c16 L A thr v k n hn h hv hthr pre post hpre hpost

/-- explicit classes: every threshold when there is at least one zero -/
theorem C16_text_de_simple (thr : Nat → Bool) (v : Var) (k n : Nat) (hk : 0 < k) (hn : 0 < n) (h : n < 10 ^ 12) (hv : flag v (cp 2 5) = true ∧ flag v (cp 3 5) = true)
    (pre post : List Word)
    (hpre : ∀ w ∈ pre, Ordinary simpleCC De.lang w) (hpost : ∀ w ∈ post, Ordinary simpleCC De.lang w) :
    replaceText simpleCC .german thr
        (joinWords (pre ++ (List.replicate k Spec.De.zeroWord ++ Spec.De.cardinal v n) ++ post)) =
      .ok (joinWords (pre ++ [List.replicate k '0' ++ decChars n] ++ post)) :=
  C16_text_de simple_textLaws simple_alphaLaws thr v k n hn h hv (fun h0 => by omega) pre post hpre hpost

/-! ### French -/

/-- **C16 (fr), text level** (the hypothesis on `neuf` only concerns `k = 0`, `n = 9`, where the statement is `C01_text_fr`; with `k ≥ 1` the word before `neuf` is `zéro`) -/
theorem C16_text_fr {cc : CharClasses} (L : TextLaws cc) (A : AlphaLaws cc) (thr : Nat → Bool)
    (v : Var) (k n : Nat) (hn : 0 < n) (h : n < 10 ^ 12) (hthr : k = 0 → n < 10 → thr n = false)
    (pre post : List Word) (hpre : ∀ w ∈ pre, Ordinary cc Fr.lang w) (hpost : ∀ w ∈ post, Ordinary cc Fr.lang w)
    (hneuf : k = 0 → n = 9 → T2N.C01.C01_text_fr_neufMarked pre = false) :
    replaceText cc .french thr
        (joinWords (pre ++ (List.replicate k Spec.Fr.zeroWord ++ Spec.Fr.cardinal v n) ++ post)) =
      .ok (joinWords (pre ++ [List.replicate k '0' ++ decChars n] ++ post)) :=
  TextCor.Fr.text_c16 L A thr v k n hn h hthr pre post hpre hpost hneuf

/-- explicit classes: every threshold when there is at least one zero -/
theorem C16_text_fr_simple (thr : Nat → Bool) (v : Var) (k n : Nat) (hk : 0 < k) (hn : 0 < n) (h : n < 10 ^ 12)
    (pre post : List Word)
    (hpre : ∀ w ∈ pre, Ordinary simpleCC Fr.lang w) (hpost : ∀ w ∈ post, Ordinary simpleCC Fr.lang w) :
    replaceText simpleCC .french thr
        (joinWords (pre ++ (List.replicate k Spec.Fr.zeroWord ++ Spec.Fr.cardinal v n) ++ post)) =
      .ok (joinWords (pre ++ [List.replicate k '0' ++ decChars n] ++ post)) :=
  C16_text_fr simple_textLaws simple_alphaLaws thr v k n hn h (fun h0 => by omega) pre post hpre hpost (fun h0 => by omega)

/-! ### plain strings, every language (threshold: everything is "small") -/

example : T2N.C01.C01_text_is (replaceText simpleCC .spanish (fun _ => true) "sala cero cero siete gracias".toList)
    "sala 007 gracias" = true := by decide +kernel

example : T2N.C01.C01_text_is (replaceText simpleCC .portuguese (fun _ => true) "sala zero zero sete obrigado".toList)
    "sala 007 obrigado" = true := by decide +kernel

example : T2N.C01.C01_text_is (replaceText simpleCC .italian (fun _ => true) "stanza zero zero sette grazie".toList)
    "stanza 007 grazie" = true := by decide +kernel

example : T2N.C01.C01_text_is (replaceText simpleCC .dutch (fun _ => true) "kamer nul nul zeven graag".toList)
    "kamer 007 graag" = true := by decide +kernel

example : T2N.C01.C01_text_is (replaceText simpleCC .german (fun _ => true) "zimmer null null sieben bitte".toList)
    "zimmer 007 bitte" = true := by decide +kernel

example : T2N.C01.C01_text_is (replaceText simpleCC .french (fun _ => true) "chambre zéro zéro neuf merci".toList)
    "chambre 009 merci" = true := by decide +kernel

end T2N.C16
