/-
  C11 — letter case never matters.

  * validation: `text2digits` reads its input only through the lowercase form — a one-line theorem;
  * search: two token streams whose tokens carry the same lowercase copy, the same hints, and whose raw
    texts are indistinguishable to the three case-insensitive tests the scanner applies to the raw text
    (is it `-`? is it all whitespace? does it contain a letter / trim to a period?) yield identical
    occurrences at every threshold. The linking-word lookup goes through the lowercase copy (this is
    what the fix of F-linking-case restored and what makes the theorem provable).
  * the three raw-text tests are case-insensitive under the laws `CaseLaws cc` about the character
    classes, which the harness checks exhaustively over all 1 114 112 scalar values of Rust `std` (S-cc).
  Multi-character case expansions (ß→SS, İ) and final sigma are outside the proved part (oracle only).
-/
import T2N.Lemmas.Congr
import T2N.Model.Api

namespace T2N.C11
open T2N

/-- **C11 (validation)**: texts with the same lowercase form validate identically. -/
theorem C11_validate (cc : CharClasses) (l : Lang) (s s' : Word) (h : cc.lowerStr s = cc.lowerStr s') :
    text2digits cc l s = text2digits cc l s' := by
  unfold text2digits; rw [h]

/-- what a recasing preserves, per token -/
def Recase (cfg : ScanCfg) (a b : Tok) : Prop :=
  a.lower = b.lower ∧ a.nan = b.nan ∧
  Scanner.isSkipped cfg a = Scanner.isSkipped cfg b ∧
  (a.text.all (fun c => !cfg.cc.isAlphabetic c) && cfg.cc.trim a.text != ['.']) =
    (b.text.all (fun c => !cfg.cc.isAlphabetic c) && cfg.cc.trim b.text != ['.'])

theorem recase_tokRel (cfg : ScanCfg) {a b : Tok} (h : Recase cfg a b) : TokRel cfg a b := by
  obtain ⟨h1, h2, h3, h4⟩ := h
  refine ⟨h3, h2, ?_, ?_⟩
  · rw [h1]; exact LangEq.refl _ _
  · unfold breaks; rw [h4, h1]

/-- **C11 (search)**: recased token streams give the same occurrences — same spans, digit texts,
values and ordinal flags — at every threshold (`cfg.thrLt` arbitrary). -/
theorem C11_scan (cfg : ScanCfg) (hsep : SepRespects cfg) (toks toks' : List Tok)
    (h : ListRel (Recase cfg) toks toks') : findNumbers cfg toks = findNumbers cfg toks' := by
  apply findNumbers_congr cfg hsep
  induction toks generalizing toks' with
  | nil => cases toks' with
    | nil => trivial
    | cons _ _ => cases h
  | cons a as ih => cases toks' with
    | nil => cases h
    | cons b bs => exact ⟨recase_tokRel cfg h.1, ih bs h.2⟩

/-- the tokens produced by `replace_numbers_in_text` never declare a separation -/
theorem noSep_respects (cfg : ScanCfg) (h : cfg.sep = noSep) : SepRespects cfg := by
  intro a a' b b' _ _; rw [h]; simp [noSep]

/-! ### the raw-text tests are case-insensitive under laws about the character classes -/

/-- laws relating `char::to_lowercase` to the classes (checked exhaustively against Rust std by S-cc) -/
structure CaseLaws (cc : CharClasses) : Prop where
  lower_nonempty : ∀ c, cc.lower c ≠ []
  ws_iff : ∀ c, cc.isWhitespace c = (cc.lower c).all cc.isWhitespace
  alpha_iff : ∀ c, cc.isAlphabetic c = (cc.lower c).any cc.isAlphabetic
  ws_lower_id : ∀ c, cc.isWhitespace c = true → cc.lower c = [c]

theorem all_ws_lowerStr (cc : CharClasses) (L : CaseLaws cc) (s : Word) :
    (cc.lowerStr s).all cc.isWhitespace = s.all cc.isWhitespace := by
  induction s with
  | nil => rfl
  | cons c cs ih =>
    have e : cc.lowerStr (c :: cs) = cc.lower c ++ cc.lowerStr cs := by
      simp [CharClasses.lowerStr]
    rw [e, List.all_append, ih, List.all_cons, ← L.ws_iff c]

theorem all_nonalpha_list (cc : CharClasses) (l : List Char) :
    l.all (fun c => !cc.isAlphabetic c) = !(l.any cc.isAlphabetic) := by
  induction l with
  | nil => rfl
  | cons x xs ih => simp only [List.all_cons, List.any_cons, Bool.not_or, ih]

theorem all_nonalpha_lowerStr (cc : CharClasses) (L : CaseLaws cc) (s : Word) :
    (cc.lowerStr s).all (fun c => !cc.isAlphabetic c) = s.all (fun c => !cc.isAlphabetic c) := by
  induction s with
  | nil => rfl
  | cons c cs ih =>
    have e : cc.lowerStr (c :: cs) = cc.lower c ++ cc.lowerStr cs := by
      simp [CharClasses.lowerStr]
    rw [e, List.all_append, ih, List.all_cons, all_nonalpha_list, ← L.alpha_iff c]

/-- "all whitespace" and "contains no letter" are decided by the lowercase form alone -/
theorem C11_raw_tests_case_insensitive (cc : CharClasses) (L : CaseLaws cc) (t t' : Word)
    (h : cc.lowerStr t = cc.lowerStr t') :
    t.all cc.isWhitespace = t'.all cc.isWhitespace ∧
    t.all (fun c => !cc.isAlphabetic c) = t'.all (fun c => !cc.isAlphabetic c) := by
  constructor
  · rw [← all_ws_lowerStr cc L t, ← all_ws_lowerStr cc L t', h]
  · rw [← all_nonalpha_lowerStr cc L t, ← all_nonalpha_lowerStr cc L t', h]

/-! ### text level: a per-character recasing commutes with the tokenizer -/

/-- a per-character recasing `f`: it keeps the classes, never creates or destroys the two ASCII
punctuation marks the tokenizer looks at, and does not change the lowercase form -/
structure Recasing (cc : CharClasses) (f : Char → Char) : Prop where
  alnum : ∀ c, cc.isAlphanumeric (f c) = cc.isAlphanumeric c
  alpha : ∀ c, cc.isAlphabetic (f c) = cc.isAlphabetic c
  ws : ∀ c, cc.isWhitespace (f c) = cc.isWhitespace c
  hyphen : ∀ c, (f c == '-') = (c == '-')
  apos : ∀ c, (f c == '\'') = (c == '\'')
  dot : ∀ c, (f c == '.') = (c == '.')
  lower : ∀ c, cc.lower (f c) = cc.lower c

theorem isWordChar_recase (cc : CharClasses) (f : Char → Char) (hf : Recasing cc f) (c : Char) :
    isWordChar cc (f c) = isWordChar cc c := by
  unfold isWordChar; rw [hf.alnum, hf.hyphen, hf.apos]

theorem tokenizeAux_map (cc : CharClasses) (f : Char → Char) (hf : Recasing cc f) (b : Bool) (cur s : Word) :
    tokenizeAux cc (some b) (cur.map f) (s.map f) = (tokenizeAux cc (some b) cur s).map (·.map f) := by
  induction s generalizing b cur with
  | nil =>
    unfold tokenizeAux
    by_cases h : cur.isEmpty = true
    · have : cur = [] := by simpa using h
      simp [this]
    · have h2 : (cur.map f).isEmpty = false := by
        cases cur with
        | nil => simp at h
        | cons x xs => rfl
      have h3 : cur.isEmpty = false := by simpa using h
      simp [h2, h3]
  | cons c cs ih =>
    cases b with
    | true =>
      simp only [List.map_cons]
      unfold tokenizeAux
      rw [isWordChar_recase cc f hf]
      by_cases h : isWordChar cc c = true
      · rw [if_pos h, if_pos h]
        have := ih true (c :: cur)
        simpa using this
      · rw [if_neg h, if_neg h]
        have := ih false [c]
        simp only [List.map_cons, List.map_nil] at this
        simp [this]
    | false =>
      simp only [List.map_cons]
      unfold tokenizeAux
      rw [hf.alnum]
      by_cases h : cc.isAlphanumeric c = true
      · rw [if_pos h, if_pos h]
        have := ih true [c]
        simp only [List.map_cons, List.map_nil] at this
        simp [this]
      · rw [if_neg h, if_neg h]
        have := ih false (c :: cur)
        simpa using this

theorem tokenizeWords_map (cc : CharClasses) (f : Char → Char) (hf : Recasing cc f) (s : Word) :
    tokenizeWords cc (s.map f) = (tokenizeWords cc s).map (·.map f) := by
  unfold tokenizeWords
  cases s with
  | nil => simp [tokenizeAux]
  | cons c cs =>
    simp only [List.map_cons]
    unfold tokenizeAux
    rw [hf.alnum]
    have := tokenizeAux_map cc f hf (cc.isAlphanumeric c) [c] cs
    simpa using this

theorem lowerStr_map (cc : CharClasses) (f : Char → Char) (hf : Recasing cc f) (t : Word) :
    cc.lowerStr (t.map f) = cc.lowerStr t := by
  unfold CharClasses.lowerStr
  induction t with
  | nil => rfl
  | cons c cs ih => simp only [List.map_cons, List.flatMap_cons, hf.lower, ih]

theorem all_map_eq {p : Char → Bool} (f : Char → Char) (h : ∀ c, p (f c) = p c) (t : Word) :
    (t.map f).all p = t.all p := by
  induction t with
  | nil => rfl
  | cons c cs ih => simp only [List.map_cons, List.all_cons, h, ih]

theorem trim_map (cc : CharClasses) (f : Char → Char) (hf : Recasing cc f) (t : Word) :
    cc.trim (t.map f) = (cc.trim t).map f := by
  have dw : ∀ l : Word, (l.map f).dropWhile cc.isWhitespace = (l.dropWhile cc.isWhitespace).map f := by
    intro l
    induction l with
    | nil => rfl
    | cons c cs ih =>
      simp only [List.map_cons, List.dropWhile_cons, hf.ws]
      split
      · exact ih
      · rfl
  unfold CharClasses.trim
  rw [dw, ← List.map_reverse, dw, List.map_reverse]

theorem singleton_beq (f : Char → Char) (x : Char) (h : ∀ c, (f c == x) = (c == x)) (t : Word) :
    (t.map f == [x]) = (t == [x]) := by
  cases t with
  | nil => rfl
  | cons c cs =>
    cases cs with
    | nil =>
      show ([f c] == [x]) = ([c] == [x])
      have e1 : ([f c] == [x]) = (f c == x) := by simp
      have e2 : ([c] == [x]) = (c == x) := by simp
      rw [e1, e2, h]
    | cons d ds =>
      have e1 : ((c :: d :: ds).map f == [x]) = false := by simp
      have e2 : ((c :: d :: ds) == [x]) = false := by simp
      rw [e1, e2]

theorem eq_dot_map (f : Char → Char) (hdot : ∀ c, (f c == '.') = (c == '.')) (t : Word) :
    (t.map f != ['.']) = (t != ['.']) := by
  show (!(t.map f == ['.'])) = (!(t == ['.']))
  rw [singleton_beq f '.' hdot]

/-- recased texts tokenize to recased tokens carrying the same lowercase copies: every token pair
satisfies `Recase` -/
theorem tokenize_recase (cfg : ScanCfg) (f : Char → Char) (hf : Recasing cfg.cc f) (s : Word) :
    ListRel (Recase cfg) (tokenize cfg.cc (s.map f)) (tokenize cfg.cc s) := by
  unfold tokenize
  rw [tokenizeWords_map cfg.cc f hf]
  generalize tokenizeWords cfg.cc s = ws
  induction ws with
  | nil => trivial
  | cons w ws ih =>
    refine ⟨?_, ih⟩
    unfold basicToken Recase
    refine ⟨lowerStr_map cfg.cc f hf w, rfl, ?_, ?_⟩
    · unfold Scanner.isSkipped
      dsimp only
      rw [all_map_eq f hf.ws, singleton_beq f '-' hf.hyphen w]
    · dsimp only
      rw [all_map_eq f (fun c => by rw [hf.alpha]), trim_map cfg.cc f hf]
      congr 1
      exact eq_dot_map f hf.dot _

/-- **C11 (text, token level of the text pipeline)**: recasing a text character by character
(preserving classes and lowercase forms) changes neither which numbers the scanner recognises on the
text's own tokens nor their spans, digit text, value or flag, at every threshold. -/
theorem C11_text_scan (cfg : ScanCfg) (hsep : cfg.sep = noSep) (f : Char → Char) (hf : Recasing cfg.cc f) (s : Word) :
    findNumbers cfg (tokenize cfg.cc (s.map f)) = findNumbers cfg (tokenize cfg.cc s) :=
  C11_scan cfg (noSep_respects cfg hsep) _ _ (tokenize_recase cfg f hf s)

/-! non-vacuity: `Recase` relates a real recasing, under concrete character classes -/
def exLang : Lang := ⟨"x", fun _ b => (some .nan, b), fun _ b => (some .nan, b), fun _ => .none, fun _ => false, '.', fun _ => false⟩
def exCC : CharClasses := ⟨fun c => c == ' ', Char.isAlpha, Char.isAlphanum, fun c => [c.toLower]⟩
def exCfg : ScanCfg := ⟨exLang, exCC, noSep, fun _ => false⟩
example : Recase exCfg { text := w!"FIVE", lower := w!"five" } { text := w!"five", lower := w!"five" } := by
  refine ⟨rfl, rfl, ?_, ?_⟩ <;> decide

/-- a concrete, non-trivial recasing: swapping `a` and `A` under the example classes -/
def swapA (c : Char) : Char := if c == 'a' then 'A' else if c == 'A' then 'a' else c

example : Recasing exCC swapA := by
  have key : ∀ c : Char, swapA c = c ∨ (c = 'a' ∧ swapA c = 'A') ∨ (c = 'A' ∧ swapA c = 'a') := by
    intro c
    unfold swapA
    by_cases h1 : c = 'a'
    · right; left; subst h1; exact ⟨rfl, rfl⟩
    · by_cases h2 : c = 'A'
      · right; right; subst h2; exact ⟨rfl, rfl⟩
      · left; simp [h1, h2]
  refine ⟨?_, ?_, ?_, ?_, ?_, ?_, ?_⟩ <;> intro c <;> rcases key c with h | ⟨h1, h2⟩ | ⟨h1, h2⟩ <;>
    first
    | (rw [h])
    | (subst h1; rw [h2]; decide)

end T2N.C11
