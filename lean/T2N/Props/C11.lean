/-
  C11 — letter case never matters.

  * validation: `text2digits` reads its input only through the lowercase form — a one-line theorem;
  * search: two token streams whose tokens carry the same lowercase copy, the same hints, and whose raw
    texts are indistinguishable to the three case-insensitive tests the scanner applies to the raw text
    (is it `-`? is it all whitespace? does it contain a letter / trim to a period?) yield identical
    occurrences at every threshold. The linking-word lookup goes through the lowercase copy (this is
    what the fix of F-linking-case restored and what makes the theorem provable).
  * the three raw-text tests are case-insensitive under the laws `CaseLaws cc` about the character
    classes, which the harness checks exhaustively over all 1 114 112 scalar values of Rust `std` (S-cc).
  Multi-character case expansions (ß→SS, İ) and final sigma are outside the proved part (oracle only).
-/
import T2N.Lemmas.Congr
import T2N.Model.Api

namespace T2N.C11
open T2N

/-- **C11 (validation)**: texts with the same lowercase form validate identically. -/
theorem C11_validate (cc : CharClasses) (l : Lang) (s s' : Word) (h : cc.lowerStr s = cc.lowerStr s') :
    text2digits cc l s = text2digits cc l s' := by
  unfold text2digits; rw [h]

/-- what a recasing preserves, per token -/
def Recase (cfg : ScanCfg) (a b : Tok) : Prop :=
  a.lower = b.lower ∧ a.nan = b.nan ∧
  Scanner.isSkipped cfg a = Scanner.isSkipped cfg b ∧
  (a.text.all (fun c => !cfg.cc.isAlphabetic c) && cfg.cc.trim a.text != ['.']) =
    (b.text.all (fun c => !cfg.cc.isAlphabetic c) && cfg.cc.trim b.text != ['.'])

theorem recase_tokRel (cfg : ScanCfg) {a b : Tok} (h : Recase cfg a b) : TokRel cfg a b := by
  obtain ⟨h1, h2, h3, h4⟩ := h
  refine ⟨h3, h2, ?_, ?_⟩
  · rw [h1]; exact LangEq.refl _ _
  · unfold breaks; rw [h4, h1]

/-- **C11 (search)**: recased token streams give the same occurrences — same spans, digit texts,
values and ordinal flags — at every threshold (`cfg.thrLt` arbitrary). -/
theorem C11_scan (cfg : ScanCfg) (hsep : SepRespects cfg) (toks toks' : List Tok)
    (h : ListRel (Recase cfg) toks toks') : findNumbers cfg toks = findNumbers cfg toks' := by
  apply findNumbers_congr cfg hsep
  induction toks generalizing toks' with
  | nil => cases toks' with
    | nil => trivial
    | cons _ _ => cases h
  | cons a as ih => cases toks' with
    | nil => cases h
    | cons b bs => exact ⟨recase_tokRel cfg h.1, ih bs h.2⟩

/-- the tokens produced by `replace_numbers_in_text` never declare a separation -/
theorem noSep_respects (cfg : ScanCfg) (h : cfg.sep = noSep) : SepRespects cfg := by
  intro a a' b b' _ _; rw [h]; simp [noSep]

/-! ### the raw-text tests are case-insensitive under laws about the character classes -/

/-- laws relating `char::to_lowercase` to the classes (checked exhaustively against Rust std by S-cc) -/
structure CaseLaws (cc : CharClasses) : Prop where
  lower_nonempty : ∀ c, cc.lower c ≠ []
  ws_iff : ∀ c, cc.isWhitespace c = (cc.lower c).all cc.isWhitespace
  alpha_iff : ∀ c, cc.isAlphabetic c = (cc.lower c).any cc.isAlphabetic
  ws_lower_id : ∀ c, cc.isWhitespace c = true → cc.lower c = [c]

theorem all_ws_lowerStr (cc : CharClasses) (L : CaseLaws cc) (s : Word) :
    (cc.lowerStr s).all cc.isWhitespace = s.all cc.isWhitespace := by
  induction s with
  | nil => rfl
  | cons c cs ih =>
    have e : cc.lowerStr (c :: cs) = cc.lower c ++ cc.lowerStr cs := by
      simp [CharClasses.lowerStr]
    rw [e, List.all_append, ih, List.all_cons, ← L.ws_iff c]

theorem all_nonalpha_list (cc : CharClasses) (l : List Char) :
    l.all (fun c => !cc.isAlphabetic c) = !(l.any cc.isAlphabetic) := by
  induction l with
  | nil => rfl
  | cons x xs ih => simp only [List.all_cons, List.any_cons, Bool.not_or, ih]

theorem all_nonalpha_lowerStr (cc : CharClasses) (L : CaseLaws cc) (s : Word) :
    (cc.lowerStr s).all (fun c => !cc.isAlphabetic c) = s.all (fun c => !cc.isAlphabetic c) := by
  induction s with
  | nil => rfl
  | cons c cs ih =>
    have e : cc.lowerStr (c :: cs) = cc.lower c ++ cc.lowerStr cs := by
      simp [CharClasses.lowerStr]
    rw [e, List.all_append, ih, List.all_cons, all_nonalpha_list, ← L.alpha_iff c]

/-- "all whitespace" and "contains no letter" are decided by the lowercase form alone -/
theorem C11_raw_tests_case_insensitive (cc : CharClasses) (L : CaseLaws cc) (t t' : Word)
    (h : cc.lowerStr t = cc.lowerStr t') :
    t.all cc.isWhitespace = t'.all cc.isWhitespace ∧
    t.all (fun c => !cc.isAlphabetic c) = t'.all (fun c => !cc.isAlphabetic c) := by
  constructor
  · rw [← all_ws_lowerStr cc L t, ← all_ws_lowerStr cc L t', h]
  · rw [← all_nonalpha_lowerStr cc L t, ← all_nonalpha_lowerStr cc L t', h]

/-! non-vacuity: `Recase` relates a real recasing, under concrete character classes -/
def exLang : Lang := ⟨"x", fun _ b => (some .nan, b), fun _ b => (some .nan, b), fun _ => .none, fun _ => false, '.', fun _ => false⟩
def exCC : CharClasses := ⟨fun c => c == ' ', Char.isAlpha, Char.isAlphanum, fun c => [c.toLower]⟩
def exCfg : ScanCfg := ⟨exLang, exCC, noSep, fun _ => false⟩
example : Recase exCfg { text := w!"FIVE", lower := w!"five" } { text := w!"five", lower := w!"five" } := by
  refine ⟨rfl, rfl, ?_, ?_⟩ <;> decide

end T2N.C11
