/-
  C18 — English `o` is read as zero only next to another number word.
-/
import T2N.Props.C07
import T2N.Model.Api

namespace T2N.C18
open T2N

/-- as a number word, `o` is exactly `zero` (integer part and decimal part), in every builder state -/
theorem C18_o_as_zero (b : DS) :
    En.apply w!"o" b = En.apply w!"zero" b ∧ En.applyDecimal w!"o" b = En.applyDecimal w!"zero" b := by
  constructor <;> rfl

/-- a word is a *number word* when it is accepted on a fresh builder -/
def NumberWord (w : Word) : Bool := (En.apply w DS.new).1.isNone

/-- The scratch builder of the annotation pass is fresh at every probe: a failing probe leaves it
untouched (failure atomicity, C07) and a successful one is followed by `reset`. One step of the loop: -/
theorem C18_probe_keeps_scratch_fresh (w : Word) (h : (En.apply w DS.new).1.isNone = false) :
    (En.apply w DS.new).2 = DS.new := by
  cases hr : (En.apply w DS.new).1 with
  | none => rw [hr] at h; cases h
  | some e => exact C07.C07_apply_atomic_en w DS.new e hr

/-- is a neighbour (nearest significant token before / after position `j`) a number word? -/
def numNeighbour (sig : List Nat) (j : Nat) (toks : List Tok) : Bool :=
  (decide (j > 0) && NumberWord (lowerAt toks (sig.getD (j - 1) 0))) ||
  (decide (j + 1 < sig.length) && NumberWord (lowerAt toks (sig.getD (j + 1) 0)))

theorem probe_fresh (w : Word) :
    probe En.apply w DS.new = (NumberWord w, if NumberWord w then (En.apply w DS.new).2 else DS.new) := by
  unfold probe NumberWord
  cases hr : (En.apply w DS.new).1.isNone with
  | true => simp [hr]
  | false =>
    have := C18_probe_keeps_scratch_fresh w hr
    simp [hr, this]

/-- **the decision**: starting from a fresh scratch builder, the `o` at significant position `j` is
accepted as a number exactly when the nearest significant token before it or after it is a number word;
when it is rejected the scratch builder is fresh again. -/
theorem C18_decision (sig : List Nat) (j : Nat) (toks : List Tok) :
    (enDecide En.apply sig j toks DS.new).1 = numNeighbour sig j toks ∧
    ((enDecide En.apply sig j toks DS.new).1 = false → (enDecide En.apply sig j toks DS.new).2 = DS.new) := by
  unfold enDecide numNeighbour
  generalize lowerAt toks (sig.getD (j - 1) 0) = wp
  generalize lowerAt toks (sig.getD (j + 1) 0) = wn
  by_cases hj : j > 0
  · rw [if_pos hj, probe_fresh]
    cases hp : NumberWord wp with
    | true => simp [hj]
    | false =>
      simp only [Bool.false_eq_true, if_false, decide_eq_true hj, Bool.and_false, Bool.false_or, Bool.true_and]
      by_cases hn : j + 1 < sig.length
      · rw [if_pos hn, probe_fresh]
        cases hq : NumberWord wn with
        | true => simp [hn]
        | false => simp [hn]
      · rw [if_neg hn]; simp [hn]
  · rw [if_neg hj]
    simp only [Bool.false_eq_true, if_false, decide_eq_false hj, Bool.false_and, Bool.false_or]
    by_cases hn : j + 1 < sig.length
    · rw [if_pos hn, probe_fresh]
      cases hq : NumberWord wn with
      | true => simp [hn]
      | false => simp [hn]
    · rw [if_neg hn]; simp [hn]

/-- the pass as a specification, without any scratch state: every `o` whose neighbours are not number
words is marked "not a number part"; nothing else is touched -/
def specLoop (sig : List Nat) : List Nat → Nat → List Tok → List Tok
  | [], _, toks => toks
  | i :: rest, j, toks =>
    if lowerAt toks i == ['o'] && !(numNeighbour sig j toks) then specLoop sig rest (j + 1) (setNan toks i)
    else specLoop sig rest (j + 1) toks

/-- **C18 (neighbour rule)**: the English annotation pass — which threads one scratch `DigitString`
through all its probes — computes exactly the stateless specification, for every token list. -/
theorem C18_annotate_is_spec (sig rest : List Nat) (j : Nat) (toks : List Tok) :
    annotateEnLoop En.apply sig rest j DS.new toks = specLoop sig rest j toks := by
  induction rest generalizing j toks with
  | nil => rfl
  | cons i rest ih =>
    unfold annotateEnLoop specLoop
    by_cases ho : (lowerAt toks i == ['o']) = true
    · rw [if_pos ho]
      obtain ⟨h1, h2⟩ := C18_decision sig j toks
      by_cases hd : numNeighbour sig j toks = true
      · have : (enDecide En.apply sig j toks DS.new).1 = true := by rw [h1]; exact hd
        simp only [this, if_true, ho, hd, Bool.not_true, Bool.and_false, Bool.false_eq_true, if_false]
        exact ih (j + 1) toks
      · have hd' : numNeighbour sig j toks = false := by simpa using hd
        have h3 : (enDecide En.apply sig j toks DS.new).1 = false := by rw [h1]; exact hd'
        simp only [h3, Bool.false_eq_true, if_false, ho, hd', Bool.not_false, Bool.and_self, if_true]
        rw [h2 h3]
        exact ih (j + 1) (setNan toks i)
    · rw [if_neg ho]
      have ho' : (lowerAt toks i == ['o']) = false := by simpa using ho
      simp only [ho', Bool.false_and, Bool.false_eq_true, if_false]
      exact ih (j + 1) toks

theorem C18_annotateEn_is_spec (cc : CharClasses) (toks : List Tok) :
    annotateEn cc En.apply toks =
      specLoop (indicesWhere (fun t => !(t.lower.all cc.isWhitespace)) toks)
        (indicesWhere (fun t => !(t.lower.all cc.isWhitespace)) toks) 0 toks := by
  unfold annotateEn
  exact C18_annotate_is_spec _ _ 0 toks

/-- marking a token does not change any lowercase text, so later decisions are unaffected by earlier ones -/
theorem lowerAt_setNan (toks : List Tok) (k i : Nat) : lowerAt (setNan toks k) i = lowerAt toks i := by
  unfold lowerAt setNan
  simp only [List.getD_eq_getElem?_getD, List.getElem?_modify]
  by_cases h : k = i
  · subst h
    cases toks[k]? <;> simp
  · simp [h]

/-- tokens other than `o` are never touched by the pass -/
theorem C18_other_untouched (sig : List Nat) (i : Nat) (rest : List Nat) (j : Nat) (b : DS) (toks : List Tok)
    (ho : lowerAt toks i ≠ ['o']) :
    annotateEnLoop En.apply sig (i :: rest) j b toks = annotateEnLoop En.apply sig rest (j + 1) b toks := by
  conv => lhs; unfold annotateEnLoop
  rw [if_neg (by simpa using ho)]

end T2N.C18
