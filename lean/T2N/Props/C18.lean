/-
  C18 — English `o` is read as zero only next to another number word.
-/
import T2N.Props.C07
import T2N.Model.Api

namespace T2N.C18
open T2N

/-- as a number word, `o` is exactly `zero` (integer part and decimal part), in every builder state -/
theorem C18_o_as_zero (b : DS) :
    En.apply w!"o" b = En.apply w!"zero" b ∧ En.applyDecimal w!"o" b = En.applyDecimal w!"zero" b := by
  constructor <;> rfl

/-- a word is a *number word* when it is accepted on a fresh builder -/
def NumberWord (w : Word) : Bool := (En.apply w DS.new).1.isNone

/-- The scratch builder of the annotation pass is fresh at every probe: a failing probe leaves it
untouched (failure atomicity, C07) and a successful one is followed by `reset`. One step of the loop: -/
theorem C18_probe_keeps_scratch_fresh (w : Word) (h : (En.apply w DS.new).1.isNone = false) :
    (En.apply w DS.new).2 = DS.new := by
  cases hr : (En.apply w DS.new).1 with
  | none => rw [hr] at h; cases h
  | some e => exact C07.C07_apply_atomic_en w DS.new e hr

/-- tokens other than `o` are never touched by the pass -/
theorem C18_other_untouched (sig : List Nat) (i : Nat) (rest : List Nat) (j : Nat) (b : DS) (toks : List Tok)
    (ho : lowerAt toks i ≠ ['o']) :
    annotateEnLoop En.apply sig (i :: rest) j b toks = annotateEnLoop En.apply sig rest (j + 1) b toks := by
  conv => lhs; unfold annotateEnLoop
  rw [if_neg (by simpa using ho)]

end T2N.C18
