/-
  C10 (text level) — context independence of `replace_numbers_in_text`: for texts `A`, `B` and a separator
  text `S` made of ordinary words and ending in a full stop, rewriting `A ++ S ++ B` gives
  `rewrite A ++ S ++ rewrite B`, at every threshold.

  Ingredients (T2N/Lemmas/ResetText.lean): the tokenizer splits at a character-class change, the annotation
  passes are local, a suffix of quiet tokens is the same as the end of input; and the token-level reset
  theorem `C10_scanner_reset_sep` (Props/C10.lean).
-/
import T2N.Props.C10
import T2N.Props.C02.Text
import T2N.Lemmas.ResetText

namespace T2N.C10.Text
end T2N.C10.Text

namespace T2N.C10
open T2N T2N.ResetText T2N.C10.Text

/-! ### the three ingredients, under the property's name -/

/-- **C10 (tokenizer)**: the tokenizer splits at the two ends of a non-empty text `S` where the character class
changes (`splitOk`: either side empty, or an alphanumeric character followed by a character that cannot
continue a word, or a character that cannot be in a word followed by an alphanumeric one) -/
theorem C10_text_tokenize_split (cc : CharClasses) (A S B : Word) (hne : S ≠ [])
    (h1 : splitOk cc A S = true) (h2 : splitOk cc S B = true) :
    tokenize cc (A ++ S ++ B) = tokenize cc A ++ tokenize cc S ++ tokenize cc B :=
  tokenize_append3 cc A S B hne h1 h2

example : tokenize simpleCC (w!"twenty" ++ w!" cats sleep. " ++ w!"two") =
    tokenize simpleCC w!"twenty" ++ tokenize simpleCC w!" cats sleep. " ++ tokenize simpleCC w!"two" :=
  C10_text_tokenize_split simpleCC _ _ _ (by decide) (by decide) (by decide)

/-- the boundary condition is needed: `-` may end a word token or a separator token, so the split of `", -" ++ " x"`
differs from the split of `"a-" ++ " x"`; and `"a-" ++ "b"` is one word -/
example : tokenize simpleCC (w!", -" ++ w!" x") ≠ tokenize simpleCC w!", -" ++ tokenize simpleCC w!" x" ∧
    tokenize simpleCC (w!"a-" ++ w!" x") = tokenize simpleCC w!"a-" ++ tokenize simpleCC w!" x" ∧
    tokenize simpleCC (w!"a-" ++ w!"b") ≠ tokenize simpleCC w!"a-" ++ tokenize simpleCC w!"b" ∧
    splitOk simpleCC w!", -" w!" x" = false ∧ splitOk simpleCC w!"a-" w!"b" = false := by decide

/-- **C10 (annotation, English)**: the `o` pass is local at a run of tokens `TS` that contains a significant
token and whose significant tokens are neither number words nor `o` (it looks at the nearest significant
neighbour on each side only) -/
theorem C10_text_annotate_en_local (cc : CharClasses) (TA TS TB : List Tok) (hsig : ∃ t ∈ TS, isSig cc t = true)
    (hS : ∀ t ∈ TS, isSig cc t = true → acc En.lang.apply t.lower = false ∧ (t.lower == ['o']) = false) :
    Language.annotate cc .english (TA ++ TS ++ TB) =
      Language.annotate cc .english TA ++ TS ++ Language.annotate cc .english TB :=
  annotateEn_local cc En.lang.apply (fun w e h => C10_en_errFresh w e h) TA TS TB hsig hS

/-- **C10 (annotation, French)**: the `neuf` pass is local at a run of tokens `TS` with at least three true words,
all refused by the interpreter, none an article, none `neuf` (it looks three true words back, one forward) -/
theorem C10_text_annotate_fr_local (cc : CharClasses) (TA TS TB : List Tok)
    (hS3 : 3 ≤ (idxsFrom (isTrueWord cc) 0 TS).length)
    (hS : ∀ t ∈ TS, isTrueWord cc t = true → (∀ b, (Fr.lang.apply t.lower b).1.isSome = true) ∧
      frArticles.contains t.lower = false ∧ (t.lower == w!"neuf") = false) :
    Language.annotate cc .french (TA ++ TS ++ TB) =
      Language.annotate cc .french TA ++ TS ++ Language.annotate cc .french TB :=
  annotateFr_local cc Fr.lang.apply Fr.lang.isDecSep TA TS TB (fun _ => rfl) hS3 hS

/-- the same under the weakest hypotheses: the first true word of `TS` is refused, the last three are not
articles, none is `neuf` -/
theorem C10_text_annotate_fr_local_weak (cc : CharClasses) (TA TS TB : List Tok)
    (hS3 : 3 ≤ (idxsFrom (isTrueWord cc) 0 TS).length)
    (hfirst : ∀ b, (Fr.lang.apply (lowerAt TS ((idxsFrom (isTrueWord cc) 0 TS).getD 0 0)) b).1.isSome = true)
    (hart : ∀ m, m < 3 → frArticles.contains (lowerAt TS ((idxsFrom (isTrueWord cc) 0 TS).getD
      ((idxsFrom (isTrueWord cc) 0 TS).length - 1 - m) 0)) = false)
    (hneuf : ∀ t ∈ TS, isTrueWord cc t = true → (t.lower == w!"neuf") = false) :
    Language.annotate cc .french (TA ++ TS ++ TB) =
      Language.annotate cc .french TA ++ TS ++ Language.annotate cc .french TB :=
  annotateFr_local_weak cc Fr.lang.apply Fr.lang.isDecSep TA TS TB (fun _ => rfl) hS3 hfirst hart hneuf

/-- **C10 (end of input)**: a suffix of quiet tokens (skipped, hinted, or refused without changing what the
parser would report) is the same as the end of input — a hard breaker after `A` yields the occurrences of `A`
alone, in particular a held-back small number at the end of `A` is decided by `A` alone -/
theorem C10_text_quiet_suffix (cfg : ScanCfg) (A S : List Tok) (hS : ∀ t ∈ S, Quiet cfg t) :
    findNumbers cfg (A ++ S) = findNumbers cfg A :=
  findNumbers_quiet_suffix cfg A S hS

namespace Text
theorem flatMap_text_tokenize (cc : CharClasses) (s : Word) : (tokenize cc s).flatMap (·.text) = s := by
  rw [List.flatMap_def]; exact C02.C02_tokenize_lossless cc s
end Text

/-- **C10 (text, generic)**: for any configuration whose language satisfies `LangOk` and `ErrFresh`, and any
annotation pass, IF the tokenizer splits `A ++ S ++ B` at the two boundaries, the annotation pass is local
there, every token of `S` is quiet and the last token of `S` is not skipped and breaks a sequence, THEN the
rewritten text is `rewrite A ++ S ++ rewrite B`. -/
theorem C10_text_with (cfg : ScanCfg) (hl : LangOk cfg.lang) (hf : cfg.lang.ErrFresh)
    (annot : List Tok → List Tok) (A S B : Word)
    (htok : tokenize cfg.cc (A ++ S ++ B) = tokenize cfg.cc A ++ tokenize cfg.cc S ++ tokenize cfg.cc B)
    (hann : annot (tokenize cfg.cc A ++ tokenize cfg.cc S ++ tokenize cfg.cc B) =
      annot (tokenize cfg.cc A) ++ tokenize cfg.cc S ++ annot (tokenize cfg.cc B))
    (hq : ∀ t ∈ tokenize cfg.cc S, Quiet cfg t) (hne : tokenize cfg.cc S ≠ [])
    (hsk : Scanner.isSkipped cfg ((tokenize cfg.cc S).getLast hne) = false)
    (hbr : breaks cfg ((tokenize cfg.cc S).getLast hne) = true) :
    ∃ a b, replaceTextWith cfg annot A = .ok a ∧ replaceTextWith cfg annot B = .ok b ∧
      replaceTextWith cfg annot (A ++ S ++ B) = .ok (a ++ S ++ b) := by
  obtain ⟨oa, hoa, ra⟩ := C02.C02_text cfg annot A
  obtain ⟨ob, hob, rb⟩ := C02.C02_text cfg annot B
  obtain ⟨oab, hoab, rab⟩ := C02.C02_text cfg annot (A ++ S ++ B)
  rw [htok, hann] at hoab rab
  have hb : HardBreaker cfg ((tokenize cfg.cc S).getLast hne) :=
    hardBreaker_of_quiet cfg _ (hq _ (List.getLast_mem hne)) hsk hbr
  obtain ⟨oa', ob', h1, h2, h3⟩ :=
    C10_scanner_reset_sep cfg hl hf (annot (tokenize cfg.cc A)) (tokenize cfg.cc S) (annot (tokenize cfg.cc B)) hne hb
  have hAS := h1
  rw [findNumbers_quiet_suffix cfg _ _ hq, hoa] at h1
  cases h1
  rw [hob] at h2
  cases h2
  rw [hoab] at h3
  cases h3
  refine ⟨_, _, ra, rb, ?_⟩
  rw [rab]
  congr 1
  have sa := C06.C06_spansOk cfg _ oa hoa
  have sb := C06.C06_spansOk cfg _ ob hob
  have sa' := C06.C06_spansOk cfg _ oa hAS
  have e1 : C02.splice (basicReplace cfg.cc) 0 (annot (tokenize cfg.cc A) ++ tokenize cfg.cc S) oa =
      C02.splice (basicReplace cfg.cc) 0 (annot (tokenize cfg.cc A)) oa ++ tokenize cfg.cc S := by
    have := splice_append (basicReplace cfg.cc) oa [] 0 (annot (tokenize cfg.cc A)) (tokenize cfg.cc S)
      (0 + (annot (tokenize cfg.cc A)).length) (by rw [Nat.zero_add]; exact sa) trivial
    rw [List.append_nil] at this
    rw [this]; rfl
  have hk : (annot (tokenize cfg.cc A)).length + (tokenize cfg.cc S).length =
      (annot (tokenize cfg.cc A) ++ tokenize cfg.cc S).length := by rw [List.length_append]
  have sb' := spansOk_shift (annot (tokenize cfg.cc A) ++ tokenize cfg.cc S).length ob 0 _ sb
  rw [hk, splice_append (basicReplace cfg.cc) oa _ 0 _ (annot (tokenize cfg.cc B)) _
    (by rw [Nat.zero_add]; exact sa') sb', splice_shift, e1, List.flatMap_append, List.flatMap_append,
    flatMap_text_tokenize]

namespace Text
/-! ### `replace_numbers_in_text` for a `Language` -/

/-- the configuration `replaceText` runs the scanner with -/
def textCfg (cc : CharClasses) (l : Language) (thr : Nat → Bool) : ScanCfg :=
  { lang := l.interp, cc := cc, sep := noSep, thrLt := thr }

theorem replaceText_eq (cc : CharClasses) (l : Language) (thr : Nat → Bool) (s : Word) :
    replaceText cc l thr s = replaceTextWith (textCfg cc l thr) (l.annotate cc) s := rfl

theorem langOk_interp (l : Language) : LangOk l.interp := by
  cases l
  · exact C06.C06_langOk_en
  · exact C06.C06_langOk_fr
  · exact C06.C06_langOk_de
  · exact C06.C06_langOk_it
  · exact C06.C06_langOk_es
  · exact C06.C06_langOk_nl
  · exact C06.C06_langOk_pt

theorem errFresh_interp (l : Language) : l.interp.ErrFresh := by
  cases l
  · exact C10_en_errFresh
  · exact C10_fr_errFresh
  · exact C10_de_errFresh
  · exact C10_it_errFresh
  · exact C10_es_errFresh
  · exact C10_nl_errFresh
  · exact C10_pt_errFresh

theorem interp_err_same (l : Language) :
    (∀ w b e, (l.interp.apply w b).1 = some e → SameButFlags b (l.interp.apply w b).2) ∧
    (∀ w b e, (l.interp.applyDecimal w b).1 = some e → SameButFlags b (l.interp.applyDecimal w b).2) := by
  cases l
  · exact ⟨En.apply_err_same, En.applyDecimal_err_same⟩
  · exact ⟨Fr.apply_err_same, Fr.applyDecimal_err_same⟩
  · exact ⟨De.apply_err_same, De.applyDecimal_err_same⟩
  · exact ⟨It.apply_err_same, It.applyDecimal_err_same⟩
  · exact ⟨Es.apply_err_same, Es.applyDecimal_err_same⟩
  · exact ⟨Nl.apply_err_same, Nl.applyDecimal_err_same⟩
  · exact ⟨Pt.apply_err_same, Pt.applyDecimal_err_same⟩

/-- for the seven built-in interpreters a token whose word is refused in every state is quiet -/
theorem quiet_of_rejects (cc : CharClasses) (l : Language) (thr : Nat → Bool) (t : Tok)
    (h : l.interp.Rejects t.lower) : Quiet (textCfg cc l thr) t :=
  Or.inr (Or.inr ⟨rejectsSame_of_rejects l.interp (interp_err_same l).1 (interp_err_same l).2 t.lower h,
    Or.inl (fun _ => rfl)⟩)

theorem quiet_of_ws (cc : CharClasses) (l : Language) (thr : Nat → Bool) (t : Tok)
    (h : t.text.all cc.isWhitespace = true) : Quiet (textCfg cc l thr) t := by
  -- a hinted token is never skipped (it is quiet as a hinted token); an unhinted whitespace token is skipped
  cases hn : t.nan with
  | true => exact Or.inr (Or.inl hn)
  | false =>
    refine Or.inl ?_
    show (!t.nan && (t.text == ['-'] || t.text.all cc.isWhitespace)) = true
    rw [hn, h, Bool.or_true]; rfl

/-- what the text-level theorem asks of the separator text `S` (besides the locality of the annotation pass):
every token is all whitespace or a word the language refuses in every state (with an error other than
`Incomplete`); the last token is not skipped and breaks a sequence (it contains a letter or is a full stop
possibly surrounded by whitespace, and is not a linking word) -/
structure TextSep (cc : CharClasses) (l : Language) (S : Word) : Prop where
  tokens : ∀ t ∈ tokenize cc S, t.text.all cc.isWhitespace = true ∨ l.interp.Rejects t.lower
  ne : tokenize cc S ≠ []
  lastNotSkipped : ((tokenize cc S).getLast ne).text ≠ ['-'] ∧
    ((tokenize cc S).getLast ne).text.all cc.isWhitespace = false
  lastBreaks : (((tokenize cc S).getLast ne).text.all (fun c => !cc.isAlphabetic c) &&
      cc.trim ((tokenize cc S).getLast ne).text != ['.']) = false ∧
    l.interp.isLinking ((tokenize cc S).getLast ne).lower = false

theorem tokenize_nil (cc : CharClasses) : tokenize cc [] = [] := by
  simp [tokenize, tokenizeWords, tokenizeAux]
end Text

/-- **C10 (text)**: for each of the seven languages, every character-class table, every threshold and all
texts `A`, `S`, `B` such that the character class changes at both ends of `S` (`splitOk`), `S` is a separator
(`TextSep`) and the annotation pass of the language is local at `S`: the rewritten `A ++ S ++ B` is the
rewritten `A`, then `S` verbatim, then the rewritten `B`. -/
theorem C10_text (cc : CharClasses) (l : Language) (thr : Nat → Bool) (A S B : Word)
    (h1 : splitOk cc A S = true) (h2 : splitOk cc S B = true) (hS : TextSep cc l S)
    (hann : l.annotate cc (tokenize cc A ++ tokenize cc S ++ tokenize cc B) =
      l.annotate cc (tokenize cc A) ++ tokenize cc S ++ l.annotate cc (tokenize cc B)) :
    ∃ a b, replaceText cc l thr A = .ok a ∧ replaceText cc l thr B = .ok b ∧
      replaceText cc l thr (A ++ S ++ B) = .ok (a ++ S ++ b) := by
  have hne : S ≠ [] := by
    intro h; apply hS.ne; rw [h]; exact tokenize_nil cc
  simp only [replaceText_eq]
  apply C10_text_with (textCfg cc l thr) (langOk_interp l) (errFresh_interp l) (l.annotate cc) A S B
    (tokenize_append3 cc A S B hne h1 h2) hann _ hS.ne
  · show (!((tokenize cc S).getLast hS.ne).nan && (((tokenize cc S).getLast hS.ne).text == ['-'] ||
      ((tokenize cc S).getLast hS.ne).text.all cc.isWhitespace)) = false
    rw [hS.lastNotSkipped.2, Bool.or_false]
    have : (((tokenize cc S).getLast hS.ne).text == ['-']) = false := by simpa using hS.lastNotSkipped.1
    rw [this, Bool.and_false]
  · show (!((((tokenize cc S).getLast hS.ne).text.all (fun c => !cc.isAlphabetic c) &&
        cc.trim ((tokenize cc S).getLast hS.ne).text != ['.']) ||
        l.interp.isLinking ((tokenize cc S).getLast hS.ne).lower)) = true
    rw [hS.lastBreaks.1, hS.lastBreaks.2]; rfl
  · intro t ht
    rcases hS.tokens t ht with h | h
    · exact quiet_of_ws cc l thr t h
    · exact quiet_of_rejects cc l thr t h

/-- the five languages without an annotation pass -/
theorem C10_text_plain (cc : CharClasses) (l : Language) (hl : l ≠ .english ∧ l ≠ .french) (thr : Nat → Bool)
    (A S B : Word) (h1 : splitOk cc A S = true) (h2 : splitOk cc S B = true) (hS : TextSep cc l S) :
    ∃ a b, replaceText cc l thr A = .ok a ∧ replaceText cc l thr B = .ok b ∧
      replaceText cc l thr (A ++ S ++ B) = .ok (a ++ S ++ b) := by
  apply C10_text cc l thr A S B h1 h2 hS
  cases l
  · exact absurd rfl hl.1
  · exact absurd rfl hl.2
  all_goals rfl

namespace Text
/-- a decidable check for `TextSep`, given a syntactic test `ok` for "the language refuses this word" -/
def textSepCheck (cc : CharClasses) (isLinking ok : Word → Bool) (S : Word) : Bool :=
  (tokenize cc S).all (fun t => t.text.all cc.isWhitespace || ok t.lower) &&
  (match (tokenize cc S).getLast? with
   | some t => !(t.text == ['-'] || t.text.all cc.isWhitespace) &&
      !((t.text.all (fun c => !cc.isAlphabetic c) && cc.trim t.text != ['.']) || isLinking t.lower)
   | none => false)

theorem textSep_of_check (cc : CharClasses) (l : Language) (ok : Word → Bool)
    (hok : ∀ w, ok w = true → l.interp.Rejects w) (S : Word)
    (h : textSepCheck cc l.interp.isLinking ok S = true) : TextSep cc l S := by
  unfold textSepCheck at h
  rw [Bool.and_eq_true] at h
  obtain ⟨hall, hlast⟩ := h
  have hall' := List.all_eq_true.mp hall
  have hne : tokenize cc S ≠ [] := by
    intro h; rw [h] at hlast; cases hlast
  rw [List.getLast?_eq_some_getLast hne] at hlast
  simp only [Bool.and_eq_true, Bool.not_eq_eq_eq_not, Bool.not_true, Bool.or_eq_false_iff] at hlast
  obtain ⟨⟨hk1, hk2⟩, hb1, hb2⟩ := hlast
  refine ⟨?_, hne, ⟨by simpa using hk1, hk2⟩, ⟨hb1, hb2⟩⟩
  intro t ht
  have := hall' t ht
  simp only [Bool.or_eq_true] at this
  rcases this with h | h
  · exact Or.inl h
  · exact Or.inr (hok t.lower h)

/-! instances for two of the languages without an annotation pass -/

def esOrdinary (w : Word) : Bool := (Es.vocab.lookup (Es.lemmatize w)).isNone && !(w == w!"coma")

theorem esOrdinary_rejects (w : Word) (h : esOrdinary w = true) : Language.spanish.interp.Rejects w := by
  simp only [esOrdinary, Bool.and_eq_true, Bool.not_eq_eq_eq_not, Bool.not_true, Option.isNone_iff_eq_none] at h
  exact C10_es_rejects w h.1 h.2

/-- `veinte` + ` gatos duermen. ` + `dos`, Spanish, every threshold -/
example (thr : Nat → Bool) : ∃ a b, replaceText simpleCC .spanish thr w!"veinte" = .ok a ∧
    replaceText simpleCC .spanish thr w!"dos" = .ok b ∧
    replaceText simpleCC .spanish thr (w!"veinte" ++ w!" gatos duermen. " ++ w!"dos") =
      .ok (a ++ w!" gatos duermen. " ++ b) :=
  C10_text_plain simpleCC .spanish (by decide) thr _ _ _ (by decide) (by decide)
    (textSep_of_check simpleCC .spanish esOrdinary esOrdinary_rejects _ (by decide))

def deOrdinary (w : Word) : Bool :=
  !(isSplittable De.patterns (De.lemmatize w)) && (De.vocab.lookup (De.lemmatize w)).isNone &&
    (De.decVocab.lookup w).isNone && !(w == w!"komma")

theorem deOrdinary_rejects (w : Word) (h : deOrdinary w = true) : Language.german.interp.Rejects w := by
  simp only [deOrdinary, Bool.and_eq_true, Bool.not_eq_eq_eq_not, Bool.not_true, Option.isNone_iff_eq_none] at h
  exact C10_de_rejects w h.1.1.1 h.1.1.2 h.1.2 h.2

/-- `zwanzig` + ` katzen schlafen. ` + `zwei`, German, every threshold -/
example (thr : Nat → Bool) : ∃ a b, replaceText simpleCC .german thr w!"zwanzig" = .ok a ∧
    replaceText simpleCC .german thr w!"zwei" = .ok b ∧
    replaceText simpleCC .german thr (w!"zwanzig" ++ w!" katzen schlafen. " ++ w!"zwei") =
      .ok (a ++ w!" katzen schlafen. " ++ b) :=
  C10_text_plain simpleCC .german (by decide) thr _ _ _ (by decide) (by decide)
    (textSep_of_check simpleCC .german deOrdinary deOrdinary_rejects _ (by decide))
end Text

/-! ### English -/
namespace Text

/-- an ordinary English word (or punctuation run): no `-`, its lemma is not a number word, it is not a decimal
digit word nor `point` -/
def enOrdinary (w : Word) : Bool :=
  !(w.contains '-') && (En.vocab.lookup (En.lemmatize w)).isNone && (En.decVocab.lookup w).isNone &&
    !(w == w!"point")

theorem enOrdinary_rejects (w : Word) (h : enOrdinary w = true) : En.lang.Rejects w := by
  simp only [enOrdinary, Bool.and_eq_true, Bool.not_eq_eq_eq_not, Bool.not_true, Option.isNone_iff_eq_none] at h
  exact C10_en_rejects w h.1.1.1 h.1.1.2 h.1.2 h.2

theorem enOrdinary_acc (w : Word) (h : enOrdinary w = true) : acc En.lang.apply w = false := by
  obtain ⟨e, he, _⟩ := enOrdinary_rejects w h ({} : Parser)
  cases ha : (En.lang.apply w DS.new).1 with
  | some e' => unfold acc; rw [ha]; rfl
  | none =>
    exfalso
    have : (({} : Parser).push En.lang w).1 = none := by
      unfold Parser.push
      dsimp only
      have ha' : (En.lang.apply w {}).1 = none := ha
      simp only [Bool.false_eq_true, if_false, ha', Option.isSome_none, Bool.false_and]
    rw [this] at he; cases he

theorem enOrdinary_not_o (w : Word) (h : enOrdinary w = true) : (w == ['o']) = false := by
  cases hw : (w == ['o']) with
  | false => rfl
  | true =>
    have : w = ['o'] := by simpa using hw
    subst this
    revert h; decide

/-- a token of an English separator text: all whitespace, or an ordinary word -/
def enSepTok (cc : CharClasses) (t : Tok) : Bool :=
  (t.text.all cc.isWhitespace && t.lower.all cc.isWhitespace) || enOrdinary t.lower

/-- the last token of an English separator text: an ordinary word that is not skipped, breaks a sequence (it
contains a letter or is a full stop, and is not a linking word) and is significant for the `o` pass -/
def enSepLast (cc : CharClasses) (t : Tok) : Bool :=
  !(t.text == ['-'] || t.text.all cc.isWhitespace) &&
  !((t.text.all (fun c => !cc.isAlphabetic c) && cc.trim t.text != ['.']) || En.insignificant.contains t.lower) &&
  isSig cc t && enOrdinary t.lower

/-- **the decidable condition on an English separator text**: every token is whitespace or an ordinary word,
and the last token is an ordinary word containing a letter, or a full stop (possibly followed by whitespace) -/
def enSeparator (cc : CharClasses) (S : Word) : Bool :=
  (tokenize cc S).all (enSepTok cc) &&
  (match (tokenize cc S).getLast? with
   | some t => enSepLast cc t
   | none => false)

theorem enProbeFresh : ProbeFresh En.lang.apply := fun w e h => C10_en_errFresh w e h
end Text

/-- **C10 (text, English)**: for every character-class table, every threshold and all texts `A`, `S`, `B` with
a character-class change at both ends of `S` and `S` an English separator text (a few ordinary words ending
in a full stop, e.g. `" cats sleep. "`): rewriting `A ++ S ++ B` gives `rewrite A ++ S ++ rewrite B`. In
particular a small number held back at the end of `A` is decided by `A` alone, an `o` at the end of `A` or at
the start of `B` is read as in `A` / `B` alone, and no number spans `S`. -/
theorem C10_text_en (cc : CharClasses) (thr : Nat → Bool) (A S B : Word)
    (h1 : splitOk cc A S = true) (h2 : splitOk cc S B = true) (hS : enSeparator cc S = true) :
    ∃ a b, replaceText cc .english thr A = .ok a ∧ replaceText cc .english thr B = .ok b ∧
      replaceText cc .english thr (A ++ S ++ B) = .ok (a ++ S ++ b) := by
  unfold enSeparator at hS
  rw [Bool.and_eq_true] at hS
  obtain ⟨hall, hlast⟩ := hS
  have hall' := List.all_eq_true.mp hall
  have hne : tokenize cc S ≠ [] := by
    intro h; rw [h] at hlast; cases hlast
  rw [List.getLast?_eq_some_getLast hne] at hlast
  simp only [enSepLast, Bool.and_eq_true, Bool.not_eq_eq_eq_not, Bool.not_true, Bool.or_eq_false_iff] at hlast
  obtain ⟨⟨⟨⟨hk1, hk2⟩, hb1, hb2⟩, hsg⟩, hord⟩ := hlast
  have hsep : TextSep cc .english S := by
    refine ⟨?_, hne, ⟨by simpa using hk1, hk2⟩, ⟨hb1, hb2⟩⟩
    intro t ht
    have := hall' t ht
    simp only [enSepTok, Bool.or_eq_true, Bool.and_eq_true] at this
    rcases this with h | h
    · exact Or.inl h.1
    · exact Or.inr (enOrdinary_rejects t.lower h)
  apply C10_text cc .english thr A S B h1 h2 hsep
  apply annotateEn_local cc En.lang.apply enProbeFresh
  · exact ⟨_, List.getLast_mem hne, hsg⟩
  · intro t ht hsig
    have := hall' t ht
    simp only [enSepTok, Bool.or_eq_true, Bool.and_eq_true] at this
    rcases this with h | h
    · unfold isSig at hsig; rw [h.2] at hsig; cases hsig
    · exact ⟨enOrdinary_acc t.lower h, enOrdinary_not_o t.lower h⟩

/-! non-vacuity and instances (character classes `simpleCC`) -/

example : enSeparator simpleCC w!" cats sleep. " = true := by decide
example : splitOk simpleCC w!"twenty" w!" cats sleep. " = true := by decide
example : splitOk simpleCC w!" cats sleep. " w!"two" = true := by decide

/-- `twenty cats sleep. two`, at every threshold: the two numbers are rewritten as in `twenty` and `two` alone -/
example (thr : Nat → Bool) : ∃ a b, replaceText simpleCC .english thr w!"twenty" = .ok a ∧
    replaceText simpleCC .english thr w!"two" = .ok b ∧
    replaceText simpleCC .english thr (w!"twenty" ++ w!" cats sleep. " ++ w!"two") =
      .ok (a ++ w!" cats sleep. " ++ b) :=
  C10_text_en simpleCC thr _ _ _ (by decide) (by decide) (by decide)

/-- with the threshold 10: `one two` is a sequence (both rewritten), but `one` + separator + `two` is not -/
example : replaceText simpleCC .english (fun n => n < 10) w!"one cats sleep. two" = .ok w!"one cats sleep. two" := by
  rfl
example : replaceText simpleCC .english (fun n => n < 10) w!"one two" = .ok w!"1 2" := by rfl

/-! ### French -/
namespace Text

/-- an ordinary French word (or punctuation run): no `-`, its lemma is not a number word, it is not `virgule` -/
def frOrdinary (w : Word) : Bool :=
  !(w.contains '-') && (Fr.vocab.lookup (Fr.lemmatize w)).isNone && !(w == w!"virgule")

theorem frOrdinary_apply (w : Word) (h : frOrdinary w = true) (b : DS) :
    Fr.apply w b = (some .nan, { b with flags := 0 }) := by
  simp only [frOrdinary, Bool.and_eq_true, Bool.not_eq_eq_eq_not, Bool.not_true, Option.isNone_iff_eq_none] at h
  unfold Fr.apply Fr.applyFuel
  rw [if_neg (by rw [h.1.1]; simp)]
  simp [h.1.2, Act.exec]

theorem frOrdinary_rejects (w : Word) (h : frOrdinary w = true) : Fr.lang.Rejects w := by
  apply Lang.rejects_of_apply
  · intro b
    refine ⟨Err.nan, ?_, by decide⟩
    show (Fr.apply w b).1 = some Err.nan
    rw [frOrdinary_apply w h b]
  · intro b
    refine ⟨Err.nan, ?_, by decide⟩
    show (Fr.apply w b).1 = some Err.nan
    rw [frOrdinary_apply w h b]
  · simp only [frOrdinary, Bool.and_eq_true, Bool.not_eq_eq_eq_not, Bool.not_true] at h
    exact h.2

theorem frOrdinary_refused (w : Word) (h : frOrdinary w = true) (b : DS) : (Fr.lang.apply w b).1.isSome = true := by
  show (Fr.apply w b).1.isSome = true
  rw [frOrdinary_apply w h b]; rfl

theorem frOrdinary_not_neuf (w : Word) (h : frOrdinary w = true) : (w == w!"neuf") = false := by
  cases hw : (w == w!"neuf") with
  | false => rfl
  | true =>
    have : w = w!"neuf" := by simpa using hw
    subst this
    revert h; decide

/-- a token of a French separator text: all whitespace (and not a "true word" for the `neuf` pass), or an
ordinary word -/
def frSepTok (cc : CharClasses) (t : Tok) : Bool :=
  (t.text.all cc.isWhitespace && !isTrueWord cc t) || frOrdinary t.lower

def frSepLast (cc : CharClasses) (t : Tok) : Bool :=
  !(t.text == ['-'] || t.text.all cc.isWhitespace) &&
  !((t.text.all (fun c => !cc.isAlphabetic c) && cc.trim t.text != ['.']) || Fr.insignificant.contains t.lower) &&
  frOrdinary t.lower

/-- the last three true words (tokens containing an alphanumeric character) are not `un`, `le`, `du`, `l'` -/
def frLastThree (cc : CharClasses) (TS : List Tok) : Bool :=
  (List.range 3).all (fun m => !frArticles.contains (lowerAt TS ((idxsFrom (isTrueWord cc) 0 TS).getD
    ((idxsFrom (isTrueWord cc) 0 TS).length - 1 - m) 0)))

/-- **the decidable condition on a French separator text**: every token is whitespace or an ordinary word; at
least THREE tokens contain an alphanumeric character and the last three of them are not articles (the `neuf`
pass looks three words back for `un`, `le`, `du`, `l'`); the last token is an ordinary word containing a letter,
or a full stop -/
def frSeparator (cc : CharClasses) (S : Word) : Bool :=
  (tokenize cc S).all (frSepTok cc) &&
  (decide (3 ≤ (idxsFrom (isTrueWord cc) 0 (tokenize cc S)).length) && frLastThree cc (tokenize cc S)) &&
  (match (tokenize cc S).getLast? with
   | some t => frSepLast cc t
   | none => false)
end Text

/-- **C10 (text, French)**: as for English, for a French separator text with at least three words, the last
three of which are not articles. -/
theorem C10_text_fr (cc : CharClasses) (thr : Nat → Bool) (A S B : Word)
    (h1 : splitOk cc A S = true) (h2 : splitOk cc S B = true) (hS : frSeparator cc S = true) :
    ∃ a b, replaceText cc .french thr A = .ok a ∧ replaceText cc .french thr B = .ok b ∧
      replaceText cc .french thr (A ++ S ++ B) = .ok (a ++ S ++ b) := by
  unfold frSeparator at hS
  rw [Bool.and_eq_true, Bool.and_eq_true, Bool.and_eq_true] at hS
  obtain ⟨⟨hall, h3, hl3⟩, hlast⟩ := hS
  have hall' := List.all_eq_true.mp hall
  have h3' : 3 ≤ (idxsFrom (isTrueWord cc) 0 (tokenize cc S)).length := of_decide_eq_true h3
  have hne : tokenize cc S ≠ [] := by
    intro h; rw [h] at hlast; cases hlast
  rw [List.getLast?_eq_some_getLast hne] at hlast
  simp only [frSepLast, Bool.and_eq_true, Bool.not_eq_eq_eq_not, Bool.not_true, Bool.or_eq_false_iff] at hlast
  obtain ⟨⟨⟨hk1, hk2⟩, hb1, hb2⟩, hord⟩ := hlast
  have hword : ∀ t ∈ tokenize cc S, isTrueWord cc t = true → frOrdinary t.lower = true := by
    intro t ht htw
    have := hall' t ht
    simp only [frSepTok, Bool.or_eq_true, Bool.and_eq_true, Bool.not_eq_eq_eq_not, Bool.not_true] at this
    rcases this with h | h
    · rw [h.2] at htw; cases htw
    · exact h
  have hsep : TextSep cc .french S := by
    refine ⟨?_, hne, ⟨by simpa using hk1, hk2⟩, ⟨hb1, hb2⟩⟩
    intro t ht
    have := hall' t ht
    simp only [frSepTok, Bool.or_eq_true, Bool.and_eq_true] at this
    rcases this with h | h
    · exact Or.inl h.1
    · exact Or.inr (frOrdinary_rejects t.lower h)
  apply C10_text cc .french thr A S B h1 h2 hsep
  apply annotateFr_local_weak cc Fr.lang.apply Fr.lang.isDecSep
  · exact frOrdinary_refused [] (by decide)
  · exact h3'
  · obtain ⟨_, t, ht, hg, hl⟩ := idxs_facts _ _ _ (getD_mem (idxsFrom (isTrueWord cc) 0 (tokenize cc S)) 0 (by omega))
    rw [hl]; exact frOrdinary_refused t.lower (hword t ht hg)
  · intro m hm
    have := List.all_eq_true.mp hl3 m (List.mem_range.mpr hm)
    simpa using this
  · intro t ht htw
    exact frOrdinary_not_neuf t.lower (hword t ht htw)

/-- an article may occur in the separator, but not among its last three words -/
example : frSeparator simpleCC w!" le chat noir dort. " = true ∧ frSeparator simpleCC w!" il voit le chat. " = false := by
  decide
example : frSeparator simpleCC w!" mon chat dort. " = true := by decide

/-- `vingt mon chat dort. neuf personnes`, at every threshold -/
example (thr : Nat → Bool) : ∃ a b, replaceText simpleCC .french thr w!"vingt" = .ok a ∧
    replaceText simpleCC .french thr w!"neuf personnes" = .ok b ∧
    replaceText simpleCC .french thr (w!"vingt" ++ w!" mon chat dort. " ++ w!"neuf personnes") =
      .ok (a ++ w!" mon chat dort. " ++ b) :=
  C10_text_fr simpleCC thr _ _ _ (by decide) (by decide) (by decide)

/-- **three words are needed** (counter-example with two): in `j'ai un chat noir. neuf personnes` the `neuf` pass
finds the article `un` three true words before `neuf` (the full stop is not a word for it) and, as neither `noir`
nor `personnes` is a number word, marks `neuf` as the adjective; the text `neuf personnes` alone is rewritten.
With `A = "j'ai un"`, `S = " chat noir. "`, `B = "neuf personnes"` the boundary conditions hold and `S` consists of
ordinary words followed by a full stop, yet the rewriting of `B` depends on `A`. -/
example : replaceText simpleCC .french zeroThr w!"j'ai un chat noir. neuf personnes" =
    .ok w!"j'ai 1 chat noir. neuf personnes" := by rfl
example : replaceText simpleCC .french zeroThr w!"neuf personnes" = .ok w!"9 personnes" := by rfl
example : splitOk simpleCC w!"j'ai un" w!" chat noir. " = true ∧ splitOk simpleCC w!" chat noir. " w!"neuf personnes" = true ∧
    frSeparator simpleCC w!" chat noir. " = false := by decide
/-- with a third word the context no longer matters -/
example : replaceText simpleCC .french zeroThr w!"j'ai un petit chat noir. neuf personnes" =
    .ok w!"j'ai 1 petit chat noir. 9 personnes" := by rfl

end T2N.C10
