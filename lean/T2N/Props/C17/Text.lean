/-
  C17 (text level) — replacing whitespace runs of a TEXT by other non-empty whitespace runs.

  `WsText.WsSubst cc s s'`: `s'` is `s` with whitespace runs replaced by arbitrary non-empty whitespace runs.
  For every built-in language, every threshold and all character classes satisfying the laws below,
    * the two texts tokenize to token lists of the same length, word tokens identical, separator tokens
      related by `WsSubst` and made of non-alphanumeric characters (`C17_text_tokenize`), and the tokens are
      pointwise indistinguishable to the scanner, before and after the annotation pass
      (`C17_text_tokens_rel`, `C17_text_annotate_rel`: the relation `TokRel` of `C17_scan`);
    * the occurrences found are identical — spans, digit text, value, ordinal flag (`C17_text_scan`);
    * `replace_numbers_in_text` returns `WsSubst`-related texts (`C17_text_rewrite`);
    * `text2digits` returns the same result, and ignores leading / trailing whitespace (`C17_text_validate`).

  Laws about the character classes (hypotheses, to be checked against the table dumped from Rust `std`):
    * `WsLaws cc`: a whitespace character is neither alphanumeric nor alphabetic; `-` and `'` are not whitespace
      (each is necessary: otherwise a substitution moves a token boundary or changes the "contains a letter" test);
    * `SepInert cc ls`: lowercasing a non-alphanumeric character never yields one of the letters `ls` of the language
      (`sepInert_of_alnum`: follows from "lowercase of non-alphanumeric is non-alphanumeric" and "letters are
      alphanumeric");
    * `LowerWs cc` (English and French only, whose annotation passes test the LOWERCASE copy of a token for
      "all whitespace" / "no alphanumeric character"): the lowercase form of a whitespace character is whitespace.
      Necessary: with `lower '\t' = "x"`, `"o\tfive"` and `"o five"` are annotated differently;
    * `LowerWsNe cc` (validation only): lowercasing does not delete a whitespace character.

  French and `-`: `Fr.dash_counterexample` shows that the French interpreter tells `"-"` from `""`, so a
  separator token with a dash is NOT interchangeable with one without.  This does not make the text-level
  statement false: a whitespace substitution keeps every non-whitespace character, so related separator tokens
  agree on whether they contain `-`, which is what `Fr.langEq_sepish0` / `C17_separator_tokens_rel_fr_dash`
  need.  The full statement is therefore proved for French as for the other languages (with the letters
  `Fr.letters0`, i.e. without `-`, in `SepInert`).
-/
import T2N.Props.C17
import T2N.Props.C02.Text
import T2N.Lemmas.WsText

namespace T2N.C17
open T2N T2N.WsText

/-- the letters of each language that a lowercased separator character must avoid -/
def sepLetters : Language → List Char
  | .english => En.letters
  | .french => Fr.letters0
  | .german => De.letters
  | .italian => It.letters
  | .spanish => Es.letters
  | .dutch => Nl.letters
  | .portuguese => Pt.letters

/-- the hypotheses about the character classes, per language -/
structure TextLaws (cc : CharClasses) (l : Language) : Prop where
  ws : WsLaws cc
  sep : SepInert cc (sepLetters l)
  lowerWs : l = .english ∨ l = .french → LowerWs cc

/-- every language is inert on separator tokens and its annotation pass commutes with the token relation -/
theorem C17_text_inert {cc : CharClasses} {l : Language} (T : TextLaws cc l) :
    ∃ W, Inert cc l.interp (l.annotate cc) W := by
  obtain ⟨L, H, LW⟩ := T
  cases l with
  | english => exact ⟨_, inert_en (LW (Or.inl rfl)) H⟩
  | french => exact ⟨_, inert_fr L (LW (Or.inr rfl)) H⟩
  | german => exact ⟨_, inert_de H⟩
  | italian => exact ⟨_, inert_it H⟩
  | spanish => exact ⟨_, inert_es H⟩
  | dutch => exact ⟨_, inert_nl H⟩
  | portuguese => exact ⟨_, inert_pt H⟩

/-- **C17 (text, tokenizer)**: related texts are cut into the same number of tokens; corresponding tokens are
related, and either identical (word tokens) or both free of alphanumeric characters (separator tokens) -/
theorem C17_text_tokenize (cc : CharClasses) (L : WsLaws cc) {s s' : Word} (h : WsSubst cc s s') :
    ListRel (fun t t' => WsSubst cc t t' ∧ (t = t' ∨
        (t.all (fun c => !cc.isAlphanumeric c) = true ∧ t'.all (fun c => !cc.isAlphanumeric c) = true)))
      (tokenizeWords cc s) (tokenizeWords cc s') := by
  have h1 := tokenizeWords_rel L h
  have h2 := tokenizeWords_shape cc s
  generalize tokenizeWords cc s = ws at h1 h2
  generalize tokenizeWords cc s' = ws' at h1
  induction ws generalizing ws' with
  | nil =>
    cases ws' with
    | nil => trivial
    | cons _ _ => cases h1
  | cons t ts ih =>
    cases ws' with
    | nil => cases h1
    | cons t' ts' =>
      refine ⟨⟨h1.1, ?_⟩, ih (fun x hx => h2 x (List.mem_cons_of_mem _ hx)) ts' h1.2⟩
      cases h2 t List.mem_cons_self with
      | inl hw => exact Or.inl (word_token_eq L h1.1 hw)
      | inr hw => exact Or.inr ⟨hw, sep_token_all L h1.1 hw⟩

theorem C17_text_tokenize_length (cc : CharClasses) (L : WsLaws cc) {s s' : Word} (h : WsSubst cc s s') :
    (tokenize cc s).length = (tokenize cc s').length := by
  unfold tokenize
  rw [List.length_map, List.length_map]
  exact (C17_text_tokenize cc L h).length_eq

/-- **C17 (text, tokens)**: the tokens of related texts are pointwise indistinguishable to the scanner
(the relation of `C17_scan` and `C17_separator_tokens_rel_<l>`) -/
theorem C17_text_tokens_rel (cc : CharClasses) (l : Language) (T : TextLaws cc l) (thr : Nat → Bool)
    {s s' : Word} (h : WsSubst cc s s') :
    ListRel (TokRel (textCfg cc l.interp thr)) (tokenize cc s) (tokenize cc s') := by
  obtain ⟨W, I⟩ := C17_text_inert T
  exact listRel_mono (fun _ _ hab => tokWs_tokRel T.ws (textCfg cc l.interp thr) rfl W I.lang hab)
    (annotated_rel T.ws I.toId h)

/-- … and so are the annotated tokens: the English `o` pass and the French `neuf` pass set the same hints -/
theorem C17_text_annotate_rel (cc : CharClasses) (l : Language) (T : TextLaws cc l) (thr : Nat → Bool)
    {s s' : Word} (h : WsSubst cc s s') :
    ListRel (TokRel (textCfg cc l.interp thr)) (l.annotate cc (tokenize cc s)) (l.annotate cc (tokenize cc s')) := by
  obtain ⟨W, I⟩ := C17_text_inert T
  exact listRel_mono (fun _ _ hab => tokWs_tokRel T.ws (textCfg cc l.interp thr) rfl W I.lang hab)
    (annotated_rel T.ws I h)

/-- **C17 (text, search)**: replacing whitespace runs by other non-empty whitespace runs changes neither which
numbers are recognised nor their spans (token positions), digit texts, values or ordinal flags, for each of the
seven languages and every threshold -/
theorem C17_text_scan (cc : CharClasses) (l : Language) (T : TextLaws cc l) (thr : Nat → Bool)
    {s s' : Word} (h : WsSubst cc s s') :
    findNumbers (textCfg cc l.interp thr) (l.annotate cc (tokenize cc s)) =
      findNumbers (textCfg cc l.interp thr) (l.annotate cc (tokenize cc s')) := by
  obtain ⟨W, I⟩ := C17_text_inert T
  exact scan_generic T.ws I thr h

/-- **C17 (text, rewriting)**: `replace_numbers_in_text` maps related texts to related texts: the outputs differ
only in their whitespace runs -/
theorem C17_text_rewrite (cc : CharClasses) (l : Language) (T : TextLaws cc l) (thr : Nat → Bool)
    {s s' : Word} (h : WsSubst cc s s') :
    ∃ out out', replaceText cc l thr s = .ok out ∧ replaceText cc l thr s' = .ok out' ∧ WsSubst cc out out' := by
  obtain ⟨W, I⟩ := C17_text_inert T
  have hr := rewrite_generic T.ws I thr h
  obtain ⟨_, _, e1⟩ := C02.C02_text (textCfg cc l.interp thr) (l.annotate cc) s
  obtain ⟨_, _, e2⟩ := C02.C02_text (textCfg cc l.interp thr) (l.annotate cc) s'
  rw [e1, e2] at hr
  exact ⟨_, _, e1, e2, hr⟩

/-! ### validation -/

theorem splitGo_rel {cc : CharClasses} {s s' : Word} (h : WsSubst cc s s') : ∀ cur : Word,
    CharClasses.splitWhitespace.go cc s cur = CharClasses.splitWhitespace.go cc s' cur := by
  induction h with
  | nil => intro cur; rfl
  | char c hc _ ih =>
    intro cur
    simp only [CharClasses.splitWhitespace.go, hc, Bool.false_eq_true, if_false]
    exact ih _
  | ws u u' hu hu' hne hne' _ ih =>
    intro cur
    by_cases hcur : cur = []
    · subst hcur
      rw [go_ws_prefix cc u hu, go_ws_prefix cc u' hu']
      exact ih []
    · rw [go_ws_after_word cc u hu hne _ cur hcur, go_ws_after_word cc u' hu' hne' _ cur hcur, ih []]

/-- `split_whitespace` gives the same words on related texts (no law needed) -/
theorem C17_text_split (cc : CharClasses) {s s' : Word} (h : WsSubst cc s s') :
    cc.splitWhitespace s = cc.splitWhitespace s' := by
  unfold CharClasses.splitWhitespace
  exact splitGo_rel h []

theorem splitGo_trailing (cc : CharClasses) (v : Word) (hv : v.all cc.isWhitespace = true) :
    ∀ (s cur : Word), CharClasses.splitWhitespace.go cc (s ++ v) cur = CharClasses.splitWhitespace.go cc s cur
  | [], cur => by
    by_cases hne : v = []
    · subst hne; rfl
    · by_cases hcur : cur = []
      · subst hcur
        have := go_ws_prefix cc v hv []
        rw [List.append_nil] at this
        rw [List.nil_append, this]
      · have := go_ws_after_word cc v hv hne [] cur hcur
        rw [List.append_nil] at this
        have hce : cur.isEmpty = false := by simpa using hcur
        rw [List.nil_append, this]
        simp [CharClasses.splitWhitespace.go, hce]
  | c :: cs, cur => by
    simp only [List.cons_append, CharClasses.splitWhitespace.go]
    split
    · split
      · exact splitGo_trailing cc v hv cs []
      · rw [splitGo_trailing cc v hv cs []]
    · exact splitGo_trailing cc v hv cs _

/-- **C17 (text, validation)**: `text2digits` gives the same result on related texts, and ignores any leading and
trailing whitespace (`u`, `v`, `u'`, `v'` may be empty) -/
theorem C17_text_validate (cc : CharClasses) (LW : LowerWs cc) (LN : LowerWsNe cc) (l : Lang)
    {s s' : Word} (h : WsSubst cc s s') (u v u' v' : Word)
    (hu : u.all cc.isWhitespace = true) (hv : v.all cc.isWhitespace = true)
    (hu' : u'.all cc.isWhitespace = true) (hv' : v'.all cc.isWhitespace = true) :
    text2digits cc l (u ++ s ++ v) = text2digits cc l (u' ++ s' ++ v') := by
  apply C17_validate
  have key : ∀ (a t b : Word), a.all cc.isWhitespace = true → b.all cc.isWhitespace = true →
      cc.splitWhitespace (cc.lowerStr (a ++ t ++ b)) = cc.splitWhitespace (cc.lowerStr t) := by
    intro a t b ha hb
    rw [lowerStr_append, lowerStr_append, List.append_assoc, C17_split_ws_leading cc _ _ (lowerStr_ws LW ha)]
    unfold CharClasses.splitWhitespace
    exact splitGo_trailing cc _ (lowerStr_ws LW hb) _ []
  rw [key u s v hu hv, key u' s' v' hu' hv']
  exact C17_text_split cc (lowerStr_rel LW LN h)

/-! ### the hypotheses are satisfiable -/

theorem simpleCC_wsLaws : WsLaws simpleCC where
  not_alnum := fun c h => by
    have h' : simpleIsWs c = true := h
    show (!simpleIsWs c && !simpleIsPunct c) = false
    rw [h']; rfl
  not_alpha := fun c h => by
    have h' : simpleIsWs c = true := h
    show (!simpleIsWs c && !simpleIsPunct c && !simpleIsDigit c) = false
    rw [h']; rfl
  not_hyphen := by decide
  not_apos := by decide

theorem simpleCC_lowerWs : LowerWs simpleCC := fun c h => by
  show [c].all simpleCC.isWhitespace = true
  simp [h]

theorem simpleCC_lowerWsNe : LowerWsNe simpleCC := fun c _ => by
  show [c] ≠ []
  simp

theorem sepLetters_alnum (l : Language) : (sepLetters l).all simpleCC.isAlphanumeric = true := by
  cases l <;> decide +kernel

theorem simpleCC_sepInert (l : Language) : SepInert simpleCC (sepLetters l) :=
  sepInert_of_alnum (fun c hc => by
    show [c].all (fun d => !simpleCC.isAlphanumeric d) = true
    simp [hc]) (sepLetters_alnum l)

/-- all hypotheses hold for the concrete classes `simpleCC`, for every language -/
example (l : Language) : TextLaws simpleCC l := ⟨simpleCC_wsLaws, simpleCC_sepInert l, fun _ => simpleCC_lowerWs⟩

/-- a concrete substitution: two spaces against a tab, a space against tab-newline -/
theorem example_subst : WsSubst simpleCC w!"two  o five" w!"two\to\t\nfive" :=
  .char 't' (by decide) <| .char 'w' (by decide) <| .char 'o' (by decide) <|
  .ws w!"  " w!"\t" (by decide) (by decide) (by decide) (by decide) <| .char 'o' (by decide) <|
  .ws w!" " w!"\t\n" (by decide) (by decide) (by decide) (by decide) <|
  .char 'f' (by decide) <| .char 'i' (by decide) <| .char 'v' (by decide) <| .char 'e' (by decide) .nil

example : findNumbers (textCfg simpleCC En.lang zeroThr) (annotateEn simpleCC En.lang.apply (tokenize simpleCC w!"two  o five")) =
    findNumbers (textCfg simpleCC En.lang zeroThr) (annotateEn simpleCC En.lang.apply (tokenize simpleCC w!"two\to\t\nfive")) :=
  C17_text_scan simpleCC .english ⟨simpleCC_wsLaws, simpleCC_sepInert _, fun _ => simpleCC_lowerWs⟩ zeroThr example_subst

/-! ### `LowerWs` cannot be dropped for English -/

/-- `simpleCC`, except that the tab lowercases to a letter -/
def oddCC : CharClasses := { simpleCC with lower := fun c => if c == '\t' then ['x'] else [c] }

/-- the lowercase copy of the tab token is then "significant" for the `o` pass, which finds `x` instead of `five`
next to the `o`: `"o five"` becomes `"05"` but `"o\tfive"` becomes `"o\t5"` -/
theorem C17_text_lowerWs_needed :
    (replaceText oddCC .english zeroThr w!"o five").toOption = some w!"05" ∧
    (replaceText oddCC .english zeroThr w!"o\tfive").toOption = some w!"o\t5" := by
  constructor <;> decide +kernel

end T2N.C17
