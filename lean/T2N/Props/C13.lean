/-
  C13 — the `Language` facade behaves exactly as the concrete interpreter; ISO codes resolve.

  What a theorem can carry here: in the model the facade is `Language.interp : Language → Lang`, so
  "through the facade = through the concrete interpreter" holds by construction and is stated below so
  that the correspondence (S-face: every trait method and API function through `X::new()`,
  `Language::X` and `get_interpreter_for`) has a target. The lookup table is a finite fact and is proved.
-/
import T2N.Model.Api

namespace T2N.C13
open T2N

/-- the concrete interpreter types `English`, `French`, … -/
def concrete : Language → Lang
  | .english => En.lang | .french => Fr.lang | .german => De.lang | .italian => It.lang
  | .spanish => Es.lang | .dutch => Nl.lang | .portuguese => Pt.lang

/-- every operation through the facade is the operation of the concrete interpreter -/
theorem C13_facade (l : Language) : l.interp = concrete l := by cases l <;> rfl

/-- including the language-specific ambiguity annotation (only en and fr override the default no-op) -/
theorem C13_facade_annotate (cc : CharClasses) (l : Language) (toks : List Tok) :
    l.annotate cc toks =
      match l with
      | .english => annotateEn cc (concrete .english).apply toks
      | .french => annotateFr cc (concrete .french).apply (concrete .french).isDecSep toks
      | _ => toks := by
  cases l <;> rfl

/-- hence every API function gives the same result through both paths -/
theorem C13_facade_replaceText (cc : CharClasses) (l : Language) (thr : Nat → Bool) (s : Word) :
    replaceText cc l thr s =
      replaceTextWith { lang := concrete l, cc := cc, sep := noSep, thrLt := thr } (l.annotate cc) s := by
  unfold replaceText; rw [C13_facade]

/-- each built-in language is found by its ISO 639-1 code -/
theorem C13_lookup_hits : ∀ l : Language, getInterpreterFor l.iso = some l := by
  intro l; cases l <;> decide

/-- never a different language: whatever the lookup returns has exactly the requested code -/
theorem C13_lookup_inj (c : Word) (l : Language) (h : getInterpreterFor c = some l) : c = l.iso := by
  unfold getInterpreterFor at h
  have := List.find?_some h
  have h2 : l.iso = c := by simpa using this
  exact h2.symm

/-- nothing for strings that are not language codes -/
theorem C13_lookup_miss (c : Word) (h : ∀ l : Language, c ≠ l.iso) : getInterpreterFor c = none := by
  cases hc : getInterpreterFor c with
  | none => rfl
  | some l => exact absurd (C13_lookup_inj c l hc) (h l)

/-- the seven codes are pairwise distinct, so the lookup is a bijection onto the built-ins -/
theorem C13_iso_injective : ∀ a b : Language, a.iso = b.iso → a = b := by
  intro a b; cases a <;> cases b <;> decide

/-- the lookup, characterised exactly: a code resolves to `l` iff it is `l`'s ISO 639-1 code -/
theorem C13_lookup_iff (c : Word) (l : Language) : getInterpreterFor c = some l ↔ c = l.iso := by
  constructor
  · exact C13_lookup_inj c l
  · intro h; subst h; exact C13_lookup_hits l

/-- the table lists every built-in language, each once -/
theorem C13_table_complete : ∀ l : Language, l ∈ allLanguages := by
  intro l; cases l <;> decide

theorem C13_table_nodup : allLanguages.Nodup := by decide

/-- the order of the lookup's arms is immaterial: scanning ANY list that contains every built-in
language (in any order, with repetitions) gives the answer of `get_interpreter_for` -/
theorem C13_lookup_order_indep (ls : List Language) (hall : ∀ l : Language, l ∈ ls) (c : Word) :
    ls.find? (fun l => l.iso == c) = getInterpreterFor c := by
  cases h : ls.find? (fun l => l.iso == c) with
  | some l =>
    have h2 : l.iso = c := by simpa using List.find?_some h
    exact ((C13_lookup_iff c l).2 h2.symm).symm
  | none =>
    symm; apply C13_lookup_miss
    intro l hc
    have := List.find?_eq_none.1 h l (hall l)
    simp [hc] at this

/-- a code of any length other than two resolves to nothing (no prefix, suffix or padded match) -/
theorem C13_lookup_len (c : Word) (h : c.length ≠ 2) : getInterpreterFor c = none := by
  apply C13_lookup_miss
  intro l hc; subst hc
  cases l <;> exact absurd rfl h

/-- the validator through the facade is the validator of the concrete interpreter -/
theorem C13_facade_text2digits (cc : CharClasses) (l : Language) (s : Word) :
    text2digits cc l.interp s = text2digits cc (concrete l) s := by rw [C13_facade]

/-- and so is the token-stream search -/
theorem C13_facade_findNumbers (cc : CharClasses) (l : Language) (sep : Tok → Tok → Bool) (thr : Nat → Bool)
    (toks : List Tok) :
    findNumbers { lang := l.interp, cc := cc, sep := sep, thrLt := thr } toks =
      findNumbers { lang := concrete l, cc := cc, sep := sep, thrLt := thr } toks := by rw [C13_facade]


/-- the lookup is case-sensitive: a code containing an upper-case letter resolves to nothing -/
theorem C13_lookup_case_sensitive (c : Word) (h : c.any Char.isUpper = true) : getInterpreterFor c = none := by
  apply C13_lookup_miss
  intro l hc; subst hc
  cases l <;> exact absurd h (by decide)

/-- nor is surrounding whitespace forgiven: a code containing a blank resolves to nothing -/
theorem C13_lookup_no_blank (c : Word) (h : c.contains ' ' = true) : getInterpreterFor c = none := by
  apply C13_lookup_miss
  intro l hc; subst hc
  cases l <;> exact absurd h (by decide)

/-! non-vacuity -/
example : getInterpreterFor w!"pt" = some .portuguese := by decide
example : getInterpreterFor w!"xx" = none := by decide
example : getInterpreterFor w!"EN" = none := by decide
example : getInterpreterFor [] = none := by decide
example : getInterpreterFor w!"en " = none := C13_lookup_len _ (by decide)
example : allLanguages.reverse.find? (fun l => l.iso == w!"nl") = some .dutch := by decide

end T2N.C13
