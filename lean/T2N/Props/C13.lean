/-
  C13 — the `Language` facade behaves exactly as the concrete interpreter; ISO codes resolve.

  What a theorem can carry here: in the model the facade is `Language.interp : Language → Lang`, so
  "through the facade = through the concrete interpreter" holds by construction and is stated below so
  that the correspondence (S-face: every trait method and API function through `X::new()`,
  `Language::X` and `get_interpreter_for`) has a target. The lookup table is a finite fact and is proved.
-/
import T2N.Model.Api

namespace T2N.C13
open T2N

/-- the concrete interpreter types `English`, `French`, … -/
def concrete : Language → Lang
  | .english => En.lang | .french => Fr.lang | .german => De.lang | .italian => It.lang
  | .spanish => Es.lang | .dutch => Nl.lang | .portuguese => Pt.lang

/-- every operation through the facade is the operation of the concrete interpreter -/
theorem C13_facade (l : Language) : l.interp = concrete l := by cases l <;> rfl

/-- including the language-specific ambiguity annotation (only en and fr override the default no-op) -/
theorem C13_facade_annotate (cc : CharClasses) (l : Language) (toks : List Tok) :
    l.annotate cc toks =
      match l with
      | .english => annotateEn cc (concrete .english).apply toks
      | .french => annotateFr cc (concrete .french).apply (concrete .french).isDecSep toks
      | _ => toks := by
  cases l <;> rfl

/-- hence every API function gives the same result through both paths -/
theorem C13_facade_replaceText (cc : CharClasses) (l : Language) (thr : Nat → Bool) (s : Word) :
    replaceText cc l thr s =
      replaceTextWith { lang := concrete l, cc := cc, sep := noSep, thrLt := thr } (l.annotate cc) s := by
  unfold replaceText; rw [C13_facade]

/-- each built-in language is found by its ISO 639-1 code -/
theorem C13_lookup_hits : ∀ l : Language, getInterpreterFor l.iso = some l := by
  intro l; cases l <;> decide

/-- never a different language: whatever the lookup returns has exactly the requested code -/
theorem C13_lookup_inj (c : Word) (l : Language) (h : getInterpreterFor c = some l) : c = l.iso := by
  unfold getInterpreterFor at h
  have := List.find?_some h
  have h2 : l.iso = c := by simpa using this
  exact h2.symm

/-- nothing for strings that are not language codes -/
theorem C13_lookup_miss (c : Word) (h : ∀ l : Language, c ≠ l.iso) : getInterpreterFor c = none := by
  cases hc : getInterpreterFor c with
  | none => rfl
  | some l => exact absurd (C13_lookup_inj c l hc) (h l)

/-- the seven codes are pairwise distinct, so the lookup is a bijection onto the built-ins -/
theorem C13_iso_injective : ∀ a b : Language, a.iso = b.iso → a = b := by
  intro a b; cases a <;> cases b <;> decide

/-! non-vacuity -/
example : getInterpreterFor w!"pt" = some .portuguese := by decide
example : getInterpreterFor w!"xx" = none := by decide
example : getInterpreterFor w!"EN" = none := by decide
example : getInterpreterFor [] = none := by decide

end T2N.C13
