#!/usr/bin/env python3
"""Per-property check driver (DESIGN.md §2.6).

  python3 tools/check.py <ID> [--tier quick|thorough] [--seed N] [--replay FILE]

exit 0: property held on everything explored; exit 1 + `VIOLATION property=<id> replay=<path>` otherwise.
"""
import argparse, json, os, re, shutil, sys, tempfile, time

sys.path.insert(0, os.path.dirname(os.path.abspath(__file__)))
import t2nlib
from t2nlib import VERIF, BUILD, LEAN_DIR

ALLOWED_AXIOMS = {"propext", "Classical.choice", "Quot.sound"}
FORBIDDEN = re.compile(r"\b(sorry|admit|native_decide|bv_decide|implemented_by|unsafe)\b|^\s*axiom\s|maxHeartbeats\s+0")


def strip_comments(src):
    # remove /- ... -/ (nested) and -- comments
    out = []
    i = 0
    depth = 0
    n = len(src)
    while i < n:
        if src.startswith("/-", i):
            depth += 1
            i += 2
        elif src.startswith("-/", i) and depth > 0:
            depth -= 1
            i += 2
        elif depth > 0:
            if src[i] == "\n":
                out.append("\n")
            i += 1
        elif src.startswith("--", i):
            while i < n and src[i] != "\n":
                i += 1
        else:
            out.append(src[i])
            i += 1
    return "".join(out)


def lean_sources():
    res = []
    for root, _, files in os.walk(os.path.join(LEAN_DIR, "T2N")):
        for f in files:
            if f.endswith(".lean"):
                res.append(os.path.join(root, f))
    res.append(os.path.join(LEAN_DIR, "Main.lean"))
    return sorted(res)


def audit_sources():
    hits = []
    for p in lean_sources():
        src = strip_comments(open(p, encoding="utf-8").read())
        for ln, line in enumerate(src.split("\n"), 1):
            if FORBIDDEN.search(line):
                hits.append("%s:%d: %s" % (os.path.relpath(p, VERIF), ln, line.strip()[:120]))
    return hits


THEOREM_RE = re.compile(r"^(?:protected\s+|private\s+)?theorem\s+([A-Za-z0-9_.'!?]+)", re.M)
NAMESPACE_RE = re.compile(r"^namespace\s+([A-Za-z0-9_.]+)", re.M)


PROP_THM = re.compile(r"(^|\.)C[0-9]{2,3}_")


def theorems_of(module):
    """Property theorems (names `Cxx_…`) of the property module and of its per-language sub-modules."""
    path = os.path.join(LEAN_DIR, module.replace(".", "/") + ".lean")
    if not os.path.exists(path):
        return None, path
    files = [path]
    sub = path[:-5]
    if os.path.isdir(sub):
        files += sorted(os.path.join(sub, f) for f in os.listdir(sub) if f.endswith(".lean"))
    out = []
    for fp in files:
        src = strip_comments(open(fp, encoding="utf-8").read())
        out += [t for t in qualified_theorems(src) if PROP_THM.search(t)]
    return out, path


SCOPE_RE = re.compile(r"^(namespace|section|end)\b\s*([A-Za-z0-9_.]*)")


def qualified_theorems(src):
    """Fully qualified theorem names of a Lean source: follows `namespace X … end X` (and sections) line by line."""
    stack, out = [], []
    for line in src.split("\n"):
        m = SCOPE_RE.match(line)
        if m:
            kw, name = m.group(1), m.group(2)
            if kw == "namespace":
                stack.append(("ns", name))
            elif kw == "section":
                stack.append(("sec", name))
            elif stack:
                stack.pop()
            continue
        t = THEOREM_RE.match(line)
        if t:
            name = t.group(1)
            if name.startswith("_root_."):
                out.append(name[len("_root_."):])
            else:
                out.append(".".join([n for k, n in stack if k == "ns" and n] + [name]))
    return out


def proof_step(pid, module, thorough):
    """Build the property module, audit axioms. Returns dict."""
    info = {"module": module, "built": False, "theorems": [], "bad_axioms": {}, "forbidden": [], "log": ""}
    thms, path = theorems_of(module)
    if thms is None:
        info["log"] = "missing " + path
        return info
    # the property module and its sub-modules (per-language tables, text-level corollaries)
    mods = [module]
    sub = path[:-5]
    if os.path.isdir(sub):
        mods += [module + "." + f[:-5] for f in sorted(os.listdir(sub)) if f.endswith(".lean")]
    ok, log = t2nlib.build_lean(mods)
    info["built"] = ok
    info["log"] = log[-3000:] if not ok else ""
    info["forbidden"] = audit_sources()
    if not ok:
        info["theorems"] = thms
        return info
    # #print axioms on every theorem of the property file
    tmp = os.path.join(LEAN_DIR, ".audit_%s_%d.lean" % (pid, os.getpid()))
    with open(tmp, "w") as f:
        for mname in mods:
            f.write("import %s\n" % mname)
        for t in thms:
            f.write("#print axioms %s\n" % t)
    r = t2nlib.sh("lake env lean %s 2>&1" % os.path.basename(tmp), cwd=LEAN_DIR, check=False)
    os.unlink(tmp)
    out = r.stdout
    info["theorems"] = thms
    seen = set()
    for m in re.finditer(r"'(\S+?)' depends on axioms: \[([^\]]*)\]", out):
        name = m.group(1)
        axs = {a.strip() for a in m.group(2).replace("\n", " ").split(",") if a.strip()}
        seen.add(name)
        extra = axs - ALLOWED_AXIOMS
        if extra:
            info["bad_axioms"][name] = sorted(extra)
    for m in re.finditer(r"'(\S+?)' does not depend on any axioms", out):
        seen.add(m.group(1))
    missing = [t for t in thms if t not in seen]
    if missing or r.returncode != 0:
        info["bad_axioms"]["<audit>"] = ["audit could not resolve: %s" % ", ".join(missing[:5]), out[-500:]]
    if thorough:
        # independent re-check of the compiled module; replaying the kernel tables needs up to ~18 GB (measured: C08),
        # so it is skipped (and said so in the evidence) when less than 24 GB are available
        avail_kb = 0
        try:
            for line in open("/proc/meminfo"):
                if line.startswith("MemAvailable:"):
                    avail_kb = int(line.split()[1])
        except OSError:
            pass
        if avail_kb and avail_kb < 24 * 1024 * 1024:
            info["leanchecker_rc"] = "skipped: %d MB available" % (avail_kb // 1024)
        else:
            r2 = t2nlib.sh("lake env leanchecker %s 2>&1" % module, cwd=LEAN_DIR, check=False)
            info["leanchecker_rc"] = r2.returncode
            if r2.returncode != 0:
                info["bad_axioms"]["<leanchecker>"] = [r2.stdout[-500:]]
    return info


def load_known():
    p = os.path.join(VERIF, "known_findings.json")
    if not os.path.exists(p):
        return {"findings": [], "fixed": []}
    return json.load(open(p, encoding="utf-8"))


def match_known(known, pid, failure):
    """A failure matches a known finding only by its specific signature."""
    for k in known.get("findings", []):
        if pid not in k.get("properties", []):
            continue
        sig = k.get("signature", {})
        ok = True
        if "lang" in sig and failure.get("lang") != sig["lang"]:
            ok = False
        if "input_regex" in sig and not re.search(sig["input_regex"], failure.get("input", ""), re.I | re.U):
            ok = False
        if "oracle" in sig and failure.get("oracle") != sig["oracle"]:
            ok = False
        if "what" in sig and failure.get("what") != sig["what"]:
            ok = False
        if ok:
            return k
    return None


def main():
    ap = argparse.ArgumentParser()
    ap.add_argument("pid")
    ap.add_argument("--tier", default=os.environ.get("VERIF_TIER", "quick"))
    ap.add_argument("--seed", type=int, default=int(os.environ.get("VERIF_SEED", "1")))
    ap.add_argument("--replay", default=None)
    args = ap.parse_args()
    pid, tier, seed = args.pid, args.tier, args.seed
    t0 = time.time()

    import props
    if pid not in props.PROPS:
        print("unknown property", pid)
        sys.exit(2)
    cfg = props.PROPS[pid]

    os.makedirs(os.path.join(VERIF, "evidence"), exist_ok=True)
    os.makedirs(os.path.join(VERIF, "replay"), exist_ok=True)
    os.makedirs(BUILD, exist_ok=True)
    work = tempfile.mkdtemp(prefix="chk_%s_" % pid, dir=BUILD)

    try:
        ok, msg = t2nlib.build_harness()
        if not ok:
            print("harness / repository build failed:\n" + msg)
            sys.exit(2)
        t2nlib.ensure_cc_table()
        okl, logl = t2nlib.build_lean(["t2n-driver"])
        if not okl:
            print("model driver build failed:\n" + logl)
            sys.exit(2)

        if args.replay:
            props.replay(pid, args.replay, work)
            return

        ctx = props.Ctx(pid, tier, seed, work)

        # 1. proof step
        proof = proof_step(pid, cfg["module"], tier == "thorough")
        proof_ok = proof["built"] and not proof["bad_axioms"] and not proof["forbidden"] and len(proof["theorems"]) > 0

        # 2. correspondence step
        corr_total = 0
        corr_bad = []
        stream_stats = {}
        for sname in cfg["streams"]:
            st = props.run_stream(ctx, sname)
            stream_stats[sname] = {"requests": st["requests"], "disagreements": len(st["disagreements"]),
                                   "distinct_answers": st["distinct_answers"]}
            corr_total += st["requests"]
            for d in st["disagreements"][:50]:
                corr_bad.append(dict(d, stream=sname))

        # 2b. char-class laws assumed by the text-level theorems, evaluated on Rust's own tables
        law_ties = []
        law_stats = {}
        if pid in props.LAWS:
            laws = t2nlib.char_laws()
            for name in props.LAWS[pid]:
                law_stats[name] = laws.get(name, False)
                if not laws.get(name, False):
                    law_ties.append({"request": "<char-class law %s on the table dumped from Rust std>" % name,
                                     "impl": "law does not hold (or could not be evaluated)", "model": "hypothesis of the text-level theorems"})

        # 3. oracle step
        failures = []
        oracle_stats = {}
        oracle_ties = list(law_ties)
        for oname in cfg["oracles"]:
            res = props.run_oracle(ctx, oname, focus=corr_bad)
            oracle_stats[oname] = {k: v for k, v in res.items() if k != "failures"}
            if res.get("tie_broken"):
                oracle_ties.append({"request": "<static check of oracle %s>" % oname, "impl": res["tie_broken"], "model": "pure, silent"})
            for f in res["failures"]:
                failures.append(dict(f, oracle=oname))
        # the build without debug assertions answered a sample of the same requests: a different answer is a broken tie, and
        # the oracles are then repeated on that build to look for a failing input there
        corr_bad += getattr(ctx, "build_diffs", [])
        if any(d.get("build") for d in corr_bad):
            saved = t2nlib.HARNESS_BIN
            t2nlib.HARNESS_BIN = t2nlib.HARNESS_PLAIN
            try:
                for oname in cfg["oracles"]:
                    res = props.run_oracle(ctx, oname, focus=corr_bad)
                    for f in res["failures"]:
                        failures.append(dict(f, oracle=oname, build="no-debug-assertions"))
            except Exception as e:      # the search is best effort; the broken tie is reported in any case
                print("search on the build without debug assertions failed: %s" % e)
            finally:
                t2nlib.HARNESS_BIN = saved

        # 4. verdict
        known = load_known()
        new_failures = []
        known_hits = {}
        for f in failures:
            k = match_known(known, pid, f)
            if k:
                known_hits.setdefault(k["id"], (k, f))
            else:
                new_failures.append(f)
        for kid, (k, f) in sorted(known_hits.items()):
            print("KNOWN-FINDING: property=%s %s: %s (e.g. %s)" % (pid, kid, k["what"], f.get("input", "")[:80]))

        violation = None
        if new_failures:
            rp = os.path.join(VERIF, "replay", "%s-%s-%d.json" % (pid, tier, seed))
            json.dump({"property": pid, "kind": "failing-input", "seed": seed, "tier": tier,
                       "failures": new_failures[:20]}, open(rp, "w"), indent=1, ensure_ascii=False)
            violation = "VIOLATION property=%s replay=%s" % (pid, rp)
        elif not proof_ok or corr_bad or oracle_ties:
            rp = os.path.join(VERIF, "replay", "%s-%s-%d.json" % (pid, tier, seed))
            json.dump({"property": pid, "kind": "tie-broken", "seed": seed, "tier": tier,
                       "proof": {k: proof[k] for k in ("module", "built", "bad_axioms", "forbidden", "log")},
                       "theorems": proof["theorems"],
                       "correspondence_disagreements": (corr_bad + oracle_ties)[:20],
                       "note": "no failing input found by the property oracle; the theorem or stream named here no longer checks"},
                      open(rp, "w"), indent=1, ensure_ascii=False)
            violation = "VIOLATION property=%s replay=%s no-failing-input-found" % (pid, rp)

        # 5. evidence
        samples = []
        for sname in cfg["streams"]:
            samples.extend(ctx.samples.get(sname, [])[:2])
        for oname in cfg["oracles"]:
            samples.extend(ctx.samples.get(oname, [])[:3])
        n_thm = len(proof["theorems"])
        n_ok = n_thm - len([t for t in proof["bad_axioms"] if not t.startswith("<")]) if proof["built"] else 0
        if proof["bad_axioms"].get("<audit>") or proof["forbidden"]:
            n_ok = 0
        evaluations = corr_total + sum(v.get("evaluations", 0) for v in oracle_stats.values())
        ev = {
            "property_id": pid, "tier": tier, "seed": seed, "level": cfg.get("level", "proof"),
            "coverage": {
                "obligations": n_thm, "discharged": n_ok,
                "checker_cmd": "cd /verif/lean && lake build %s && lake env lean <#print axioms of each theorem>%s" % (
                    cfg["module"], " && lake env leanchecker " + cfg["module"] if tier == "thorough" else ""),
                "trusted_base": cfg.get("trusted_base", props.TRUSTED_BASE),
                "theorems": proof["theorems"],
                "traces_validated_against_impl": corr_total,
                "char_class_laws_on_rust_tables": law_stats,
                "traces_also_validated_on_build_without_debug_assertions": getattr(ctx, "plain_requests", 0),
                "leanchecker": proof.get("leanchecker_rc", "not run (quick tier)"),
                "evaluations": evaluations,
                "distinct_nontrivial": sum(v["distinct_answers"] for v in stream_stats.values()) +
                                       sum(v.get("distinct_nontrivial", 0) for v in oracle_stats.values()),
                "rule": cfg.get("rule", "distinct = distinct canonical answers of the implementation over the request streams; "
                                        "oracle cases counted by their own stated rule"),
                "streams": stream_stats, "oracles": oracle_stats,
                "samples": samples[:12] or ["(none)"],
                "exhaustive": False,
            },
            "assumptions": cfg.get("assumptions", props.ASSUMPTIONS),
            "wall_s": round(time.time() - t0, 2),
            "violations": len(new_failures) + (1 if (violation and not new_failures) else 0),
        }
        json.dump(ev, open(os.path.join(VERIF, "evidence", pid + ".json"), "w"), indent=1, ensure_ascii=False)

        print("%s tier=%s seed=%d: theorems=%d discharged=%d corr_requests=%d corr_disagreements=%d oracle_failures=%d (known=%d) wall=%.1fs" % (
            pid, tier, seed, n_thm, n_ok, corr_total, len(corr_bad), len(failures), len(failures) - len(new_failures), time.time() - t0))
        if violation:
            print(violation)
            sys.exit(1)
        sys.exit(0)
    finally:
        shutil.rmtree(work, ignore_errors=True)


if __name__ == "__main__":
    main()
