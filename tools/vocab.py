"""Vocabulary extraction from the *current* source text of /repo (re-read on every run)."""
import os, re
from t2nlib import REPO, SplitMix64

LIT = re.compile(r'"((?:[^"\\]|\\.)*)"')
WORDRE = re.compile(r"[^\W\d_]+(?:['-][^\W\d_]+)*", re.UNICODE)

SUFFIXES = {
    "en": ["s", "es", "th", "ths", "ss"],
    "fr": ["s", "ième", "ièmes", "e", "es"],
    "es": ["s", "es", "a", "o", "as", "os", "avo", "avos"],
    "pt": ["s", "a", "o", "as", "os", "es"],
    "it": ["o", "a", "i", "e", "esimo", "esima"],
    "de": ["s", "n", "r", "m", "e", "en", "te", "ste", "ter", "sten", "tes", "tem"],
    "nl": ["e", "de", "ste", "en", "s"],
}

JUNK = ["", "-", "--", "a-", "-a", "a-b", "1", "12", "x", "é", "日本", ",", ".", " ", "'", "o'", "l'", "é-é",
        "ß", "İ", "ǅ", "ﬁ", "s", "ss", "e", "a", "esim", "esimo", "te", "de", "ste", "th", "ths", "avo", "imo", "ima"]


def split_src(lang):
    p = os.path.join(REPO, "src", "lang", lang, "mod.rs")
    s = open(p, encoding="utf-8").read()
    i = s.find("#[cfg(test)]")
    return (s, "") if i < 0 else (s[:i], s[i:])


def source_literals(lang):
    code, _ = split_src(lang)
    lits = set(LIT.findall(code))
    v = os.path.join(REPO, "src", "lang", lang, "vocabulary.rs")
    if os.path.exists(v):
        lits |= set(LIT.findall(open(v, encoding="utf-8").read()))
    return sorted(lits)


def test_words(lang):
    _, tests = split_src(lang)
    ws = set()
    for lit in LIT.findall(tests):
        for w in WORDRE.findall(lit):
            ws.add(w)
            ws.add(w.lower())
    return sorted(ws)


def test_sentences(lang):
    """String literals of the repository's own tests (seed corpus for text-level streams)."""
    _, tests = split_src(lang)
    out = []
    for lit in LIT.findall(tests):
        try:
            t = bytes(lit, "utf-8").decode("unicode_escape").encode("latin-1").decode("utf-8")
        except Exception:
            t = lit
        if t.strip():
            out.append(t)
    return out


def words_for(lang, rng=None, n_compounds=400):
    base = [w for w in source_literals(lang) if " " not in w]
    tw = test_words(lang)
    import srcmine
    words = set(base) | set(tw) | set(JUNK) | set(srcmine.mine()["words"])
    for w in base:
        if w and not w.isdigit():
            for s in SUFFIXES[lang]:
                words.add(w + s)
            words.add(w.upper())
            if len(w) > 2:
                words.add(w[:-1])
    # words as a caller's tokens might carry them: padded with blanks, with a stray invisible character, with İ for I
    for w in base[:: max(1, len(base) // 40)]:
        if w and w.isalpha():
            words.update([" " + w, w + " ", "\t" + w, w + "\u00a0", "\u200b" + w, w + "\u00ad", w.upper().replace("I", "\u0130")])
    # every single letter and doubled letter as a word or a hyphen part (lemmatizers strip endings: a stem may be empty)
    for c in "abcdefghijklmnopqrstuvwxyz\u00e9\u00e8\u00fc\u00f1\u00e7":
        words.update([c, c + c, c + c + c, "x-" + c, c + "-x"])
    # compounds
    rng = rng or SplitMix64(12345)
    alpha = [w for w in base if w and w.isalpha()] + [w for w in tw if w.isalpha()]
    if alpha:
        for _ in range(n_compounds):
            k = 2 + rng.below(3)
            parts = [rng.choice(alpha) for _ in range(k)]
            if lang in ("en", "fr"):
                words.add("-".join(parts))
            else:
                words.add("".join(parts))
                if rng.chance(1, 4):
                    words.add("-".join(parts))
    return sorted(words)


def affixed(lang):
    """every vocabulary word with a punctuation character the tokenizer leaves glued to it (trailing dash / apostrophe /
    typographic apostrophe), or handed over by a caller's own tokenizer (leading dash, trailing period or comma)"""
    base = [w for w in source_literals(lang) if w and " " not in w and not w.isdigit()]
    out = []
    for w in base:
        out += [w + "-", "-" + w, w + "'", "'" + w, w + "\u2019", w + ".", w + ",", w + "--"]
    # + every non-alphanumeric character written in a literal of the current source (srcmine.py), on a third of the words
    import srcmine
    extra = [c for c in srcmine.special_chars() + srcmine.special_letters() if c not in "-'.,\u2019"]
    for w in base[::3]:
        for c in extra:
            out += [w + c, c + w]
    return out


MARKERS = {
    "en": ["th", "ths", "st", "nd", "rd", "rds"],
    "fr": ["ème", "èmes", "er", "ers", "ère", "ères"],
    "es": ["º", "ª", "ᵒˢ", "ᵃˢ", ".ᵉʳ"],
    "pt": ["º", "ª", "ᵒˢ", "ᵃˢ"],
    "it": ["º", "ª"],
    "de": ["."],
    "nl": ["e"],
    "script": ["th"],
}

BUFFERS = ["", "1", "2", "4", "6", "8", "9", "10", "11", "15", "17", "20", "21", "40", "60", "61", "70", "71", "80",
           "81", "90", "99", "100", "101", "105", "110", "115", "120", "121", "200", "500", "900", "999", "1000",
           "1001", "1010", "1100", "1900", "2000", "2100", "10000", "15000", "21000", "100000", "100100", "121000",
           "999000", "1000000", "1000001", "1001000", "2000000", "2000100", "21000000", "100000000", "999000000",
           "1000000000", "1000000001", "2000000000", "7000000001", "7001000000", "53000000000", "999000000000",
           "1000000000000", "5000000000000", "21000000000000", "1000000000000000", "05", "0",
           # digit-rich buffers (zero / non-zero patterns inside groups) and buffers beyond 2^53 with non-zero low digits
           "10512", "20512", "30045", "105000000012", "123456789", "987654321098", "9007199254740993",
           "90000000000123401", "100000000000123403", "12345678901234567890", "99999999999999999999999"]


def states_for(lang, tier="quick"):
    from t2nlib import esc
    mk = ["-"] + ["O:" + esc(m) for m in MARKERS[lang]]
    if lang == "es":
        mk.append("F:avo")
    flags = {"fr": [0, 1, 63, 2, 5], "pt": [0, 1, 2, 3], "de": [0, 1], "nl": [0, 1]}.get(lang, [0, 1])
    out = []
    for buf in BUFFERS:
        for lz in ([0, 1, 2, 3] if tier == "thorough" or buf in ("", "1", "21", "100") else [0, 1]):
            for fr in (0, 1):
                for fl in flags:
                    for m in mk:
                        if tier != "thorough":
                            # quick: prune combinations of rare dimensions
                            rare = (fr == 1) + (fl != 0) + (m != "-") + (lz > 0)
                            if rare > 1:
                                continue
                        out.append("%s|%d|%d|%d|%s" % (buf, lz, fr, fl, m))
    return out
