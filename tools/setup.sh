#!/bin/bash
# Build everything from files on disk only (offline).
set -e
cd "$(dirname "$0")/.."
export CARGO_NET_OFFLINE=true
mkdir -p .build evidence replay
(cd lean && lake build 2>&1 | tail -5)
(cd harness && cargo build --release --offline 2>&1 | tail -3)
echo "setup done"
