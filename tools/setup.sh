#!/bin/bash
# Build everything from files on disk only (offline): model + driver, property theorems, harness.
set -e
cd "$(dirname "$0")/.."
export CARGO_NET_OFFLINE=true
mkdir -p .build evidence replay
cd lean
# the driver first (fast), then all property modules; kernel tables are memory hungry: cap parallelism
lake build t2n-driver 2>&1 | tail -2
LEAN_NUM_THREADS=8 lake build T2N.Props.All 2>&1 | grep -v '^✔' | tail -15
cd ../harness
cargo build --release --offline 2>&1 | tail -2
cd ..
.build/harness/release/t2n-harness cc-dump > .build/cc.tsv
echo "setup done"
