"""Ad-hoc correspondence run: python3 tools/corr.py <request-file>  → prints disagreements."""
import sys, os, tempfile
sys.path.insert(0, __file__.rsplit("/", 1)[0])
import t2nlib

def main():
    req = sys.argv[1]
    maxshow = int(sys.argv[2]) if len(sys.argv) > 2 else 30
    ok, msg = t2nlib.build_harness()
    if not ok:
        print(msg); sys.exit(2)
    wd = tempfile.mkdtemp(prefix="t2ncorr", dir=t2nlib.BUILD)
    impl, model = t2nlib.run_both(req, wd, "corr")
    reqs = open(req, encoding="utf-8").read().split("\n")
    bad = 0
    if len(impl) != len(model):
        print("LENGTH MISMATCH impl=%d model=%d" % (len(impl), len(model)))
    for i, (a, b) in enumerate(zip(impl, model)):
        if a != b:
            bad += 1
            if bad <= maxshow:
                print("REQ  ", reqs[i]); print("IMPL ", a); print("MODEL", b); print()
    print("requests=%d disagreements=%d" % (len(impl), bad))
    import shutil; shutil.rmtree(wd)

main()
