"""Executable oracles that judge the *implementation* directly (DESIGN.md §2.6 step 3).
Each returns {"evaluations": n, "distinct_nontrivial": m, "failures": [...]}; a failure carries the
request lines that reproduce it (`requests`), the input, what was observed and what was expected."""
import os, sys, re
sys.path.insert(0, os.path.dirname(os.path.abspath(__file__)))
import t2nlib, streams
from t2nlib import esc, unesc, thr_bits, LANGS, SplitMix64


def run_impl(ctx, tag, lines):
    """run request lines on the implementation only"""
    reqp = ctx.path(tag + ".oreq")
    with open(reqp, "w", encoding="utf-8") as f:
        for l in lines:
            f.write(l + "\n")
    outp = ctx.path(tag + ".oimpl")
    rc, err = t2nlib.run_exec(t2nlib.HARNESS_BIN, reqp, outp)
    if rc != 0:
        raise RuntimeError("harness failed: " + err)
    out = open(outp, encoding="utf-8").read().split("\n")
    if out and out[-1] == "":
        out.pop()
    assert len(out) == len(lines), (len(out), len(lines))
    return out


def fail(inp, observed, expected, requests, **kw):
    d = {"input": inp, "observed": observed, "expected": expected, "requests": requests}
    d.update(kw)
    return d


# ------------------------------------------------------------------------------------------------
# C12: digit builder invariants, checked on the implementation's answers to the S-ds stream

def _is_subseq(a, b):
    it = iter(b)
    return all(c in it for c in a)


def check_ds_answer(req, ans):
    """yield (what, observed, expected) for every violated clause of C12 in one ds request"""
    ops = [o for o in req.split("\t")[1].split(" ") if o]
    if ans == "PANIC":
        yield ("panic", "PANIC", "no panic")
        return
    steps = ans.split(";")
    if len(steps) != len(ops) + 1:
        yield ("shape", ans[:100], "one answer per op")
        return
    prev = None
    for i, st in enumerate(steps):
        f = st.split("|")
        if len(f) != 7:
            yield ("shape", st, "res|buf|lz|frozen|flags|marker|queries")
            return
        res, buf, lz, frozen, flags, marker, q = f
        qf = q.split(",")
        ln, eno, peeks, frees, rfs, pfs, render = qf
        lz = int(lz)
        cur = dict(res=res, buf=buf, lz=lz, frozen=frozen == "1", snap="|".join(f[1:]), render=render)
        # always valid
        if not re.fullmatch(r"[0-9]*", render):
            yield ("render-not-digits", render, "ASCII digits")
        if len(render) != int(ln):
            yield ("len", "len=%s render=%s" % (ln, render), "len == |render|")
        if render != "0" * lz + buf:
            yield ("render", render, "0"*lz + buf)
        if "P" in pfs:
            yield ("panic", "is_position_free panicked", "no panic")
        if "P" in rfs[:5]:
            yield ("panic", "is_range_free(a<b) panicked", "no panic")
        if i > 0:
            op = ops[i - 1].split(":")
            kind = op[0]
            mut = kind in ("put", "at", "sh", "fput", "push")
            if res.startswith("ERR") and cur["snap"] != prev["snap"]:
                yield ("failure-atomicity", "%s: %s -> %s" % (ops[i - 1], prev["snap"], cur["snap"]), "unchanged on error")
            if prev["frozen"] and mut:
                if res != "ERR:Frozen":
                    yield ("frozen", "%s on frozen builder: %s" % (ops[i - 1], res), "ERR:Frozen")
            elif res == "OK" and mut:
                pv = int(prev["buf"] or "0")
                cv = int(buf or "0")
                canon = prev["buf"] == "" or prev["buf"][0] != "0"
                nz = lambda s: s.replace("0", "")
                if kind == "put":
                    ds = op[1]
                    if prev["buf"] == "" and ds == "0":
                        if not (lz == prev["lz"] + 1 and buf == ""):
                            yield ("zero", "%s -> %s" % (prev["snap"], cur["snap"]), "leading zero counted")
                    else:
                        if set(ds) <= {"0"}:
                            yield ("zero", "put:%s accepted on %s" % (ds, prev["snap"]), "zeros only while the value is zero")
                        if cv != pv + int(ds):
                            yield ("put-value", "%d" % cv, "%d" % (pv + int(ds)))
                        if prev["buf"] and set(prev["buf"][-len(ds):]) - {"0"}:
                            yield ("put-free", prev["buf"], "target positions free")
                        if not _is_subseq(nz(prev["buf"]), buf):
                            yield ("digit-lost", "%s -> %s" % (prev["buf"], buf), "previous non-zero digits kept in order")
                        if lz != prev["lz"]:
                            yield ("zero", "lz changed", "leading zeros kept")
                elif kind == "at":
                    d, p = int(op[1]), int(op[2])
                    if cv != pv + d * 10 ** p:
                        yield ("putat-value", "%d" % cv, "%d" % (pv + d * 10 ** p))
                    if not _is_subseq(nz(prev["buf"]), buf):
                        yield ("digit-lost", "%s -> %s" % (prev["buf"], buf), "previous non-zero digits kept in order")
                elif kind == "sh" and canon:
                    p = int(op[1])
                    if p == 0:
                        exp = pv
                    else:
                        g = pv % (10 ** p)
                        if g == 0:
                            g = 1
                            exp = pv + 10 ** p
                        else:
                            exp = pv - g + g * 10 ** p
                    if cv != exp:
                        yield ("shift-value", "%s sh:%d -> %s" % (prev["buf"], p, buf), "%d" % exp)
                    if not _is_subseq(nz(prev["buf"]), buf):
                        yield ("digit-lost", "%s -> %s" % (prev["buf"], buf), "previous non-zero digits kept in order")
                elif kind == "push":
                    if render != prev["render"] + op[1]:
                        yield ("push", render, prev["render"] + op[1])
        prev = cur


def oracle_c12(ctx, focus):
    reqs, impl, _ = ctx._cache["ds"]
    failures = []
    shapes = set()
    n = 0
    for r, a in zip(reqs, impl):
        n += 1
        shapes.add(a.rsplit(";", 1)[-1].split("|", 1)[0] + str(len(a.split(";"))))
        for (what, obs, exp) in check_ds_answer(r, a):
            if len(failures) < 50:
                failures.append(fail(r.split("\t")[1], "%s: %s" % (what, obs), exp, [r], clause=what))
    ctx.samples["c12"] = [{"ops": reqs[len(reqs) // 3].split("\t")[1], "answer": impl[len(reqs) // 3][:200]}]
    return {"evaluations": n, "distinct_nontrivial": len(set(impl)), "failures": failures,
            "rule": "every S-ds operation sequence; distinct = distinct final answers"}
