"""Executable oracles that judge the *implementation* directly (DESIGN.md §2.6 step 3).
Each returns {"evaluations": n, "distinct_nontrivial": m, "failures": [...]}; a failure carries the
request lines that reproduce it (`requests`), the input, what was observed and what was expected."""
import sys as _sys
if hasattr(_sys, 'set_int_max_str_digits'):
    _sys.set_int_max_str_digits(0)      # builder renderings of 70 000 digits are legitimate test values
import os, sys, re
sys.path.insert(0, os.path.dirname(os.path.abspath(__file__)))
import t2nlib, streams
from t2nlib import esc, unesc, thr_bits, LANGS, SplitMix64


def run_impl(ctx, tag, lines):
    """run request lines on the implementation only"""
    reqp = ctx.path(tag + ".oreq")
    with open(reqp, "w", encoding="utf-8") as f:
        for l in lines:
            f.write(l + "\n")
    outp = ctx.path(tag + ".oimpl")
    rc, err = t2nlib.run_exec(t2nlib.HARNESS_BIN, reqp, outp)
    out = open(outp, encoding="utf-8").read().split("\n")
    if out and out[-1] == "":
        out.pop()
    # a panic is caught per request (answer PANIC); what kills the whole process (stack overflow, abort on
    # allocation failure) is not: the first unanswered request is the culprit — answer it PANIC and go on after it
    guard = 0
    while rc != 0 and len(out) < len(lines) and guard < 50:
        guard += 1
        out = out[:len(out)]                      # complete lines only (a partial last line has no newline: dropped by split)
        out.append("PANIC")
        rest = lines[len(out):]
        if not rest:
            break
        with open(reqp, "w", encoding="utf-8") as f:
            for l in rest:
                f.write(l + "\n")
        rc, err = t2nlib.run_exec(t2nlib.HARNESS_BIN, reqp, outp)
        more = open(outp, encoding="utf-8").read().split("\n")
        if more and more[-1] == "":
            more.pop()
        out += more
    if len(out) != len(lines):
        raise RuntimeError("harness failed: rc=%s %s (%d of %d answers)" % (rc, err, len(out), len(lines)))
    _compare_builds(ctx, tag, lines, out)
    return out


def _compare_builds(ctx, tag, lines, out):
    """A sample of the same requests is answered by the harness built WITHOUT debug assertions (profile `plain`: code inside
    `debug_assert!` is not executed there). Its answers must be the ones of the checked build; a difference is recorded as a
    correspondence disagreement (`ctx.build_diffs`) and makes check.py repeat the oracles on that build."""
    if t2nlib.HARNESS_BIN == t2nlib.HARNESS_PLAIN or not os.path.exists(t2nlib.HARNESS_PLAIN):
        return
    idx = [i for i in range(len(lines)) if (i < 3000 or i % 11 == 0) and out[i] != "PANIC" and len(lines[i]) < 20000][:80000]
    if not idx:
        return
    reqp, outp = ctx.path(tag + ".preq"), ctx.path(tag + ".pimpl")
    with open(reqp, "w", encoding="utf-8") as f:
        for i in idx:
            f.write(lines[i] + "\n")
    rc, err = t2nlib.run_exec(t2nlib.HARNESS_PLAIN, reqp, outp)
    got = open(outp, encoding="utf-8").read().split("\n")
    diffs = getattr(ctx, "build_diffs", None)
    if diffs is None:
        diffs = ctx.build_diffs = []
    ctx.plain_requests = getattr(ctx, "plain_requests", 0) + len(idx)
    for j, i in enumerate(idx):
        g = got[j] if j < len(got) - 1 or (j < len(got) and rc == 0) else "ABORT rc=%s" % rc
        if g != out[i] and g != "NOHOOK":
            if len(diffs) < 50:
                diffs.append({"request": lines[i][:2000], "impl": g[:600], "model": "(build with debug assertions, equal to the model on the streams) " + out[i][:600],
                              "build": "no-debug-assertions", "stream": "oracle requests " + tag})
            if g.startswith("ABORT"):
                break
    for f_ in (reqp, outp):
        try:
            os.unlink(f_)
        except OSError:
            pass


# Unicode White_Space (what Rust's char::is_whitespace tests). Python's str.isspace() also accepts U+001C–U+001F, which
# Rust does not: never use isspace() to decide what the library treats as blank.
_WS_SET = set("\t\n\x0b\x0c\r \x85\xa0\u1680\u2000\u2001\u2002\u2003\u2004\u2005\u2006\u2007\u2008\u2009\u200a\u2028\u2029\u202f\u205f\u3000")


_WS_RE = re.compile("[" + "".join(re.escape(c) for c in sorted(_WS_SET)) + "]+")


_ALPHA = None


def is_alphabetic(c):
    """Unicode `Alphabetic` as Rust's std sees it (its table is dumped by the harness from `char::is_alphabetic`; Python's
    `str.isalpha` is only the general categories L*, which leaves out letter numbers such as the Roman numeral U+2167 and the
    Other_Alphabetic marks). The standard library is part of the trusted base, not of the code under test."""
    global _ALPHA
    if _ALPHA is None:
        import bisect
        lo, hi = [], []
        for line in open(t2nlib.ensure_cc_table(), encoding="utf-8"):
            f = line.split()
            if len(f) == 3 and f[0] == "A":
                lo.append(int(f[1]))
                hi.append(int(f[2]))
        _ALPHA = (lo, hi, bisect)
    lo, hi, bisect = _ALPHA
    i = bisect.bisect_right(lo, ord(c)) - 1
    return i >= 0 and ord(c) <= hi[i]


def is_ws(s):
    return len(s) > 0 and all(c in _WS_SET for c in s)


def is_ws_or_empty(s):
    return all(c in _WS_SET for c in s)


def fail(inp, observed, expected, requests, **kw):
    d = {"input": inp, "observed": observed, "expected": expected, "requests": requests}
    d.update(kw)
    return d


# ------------------------------------------------------------------------------------------------
# C12: digit builder invariants, checked on the implementation's answers to the S-ds stream

def _is_subseq(a, b):
    it = iter(b)
    return all(c in it for c in a)


def check_ds_answer(req, ans):
    """yield (what, observed, expected) for every violated clause of C12 in one ds request"""
    ops = [o for o in req.split("\t")[1].split(" ") if o]
    if ans == "PANIC":
        yield ("panic", "PANIC", "no panic")
        return
    steps = ans.split(";")
    if len(steps) != len(ops) + 1:
        yield ("shape", ans[:100], "one answer per op")
        return
    prev = None
    for i, st in enumerate(steps):
        f = st.split("|")
        if len(f) != 7:
            yield ("shape", st, "res|buf|lz|frozen|flags|marker|queries")
            return
        res, buf, lz, frozen, flags, marker, q = f
        qf = q.split(",")
        ln, eno, peeks, frees, rfs, pfs, render = qf
        lz = int(lz)
        cur = dict(res=res, buf=buf, lz=lz, frozen=frozen == "1", snap="|".join(f[1:]), render=render)
        # always valid
        if not re.fullmatch(r"[0-9]*", render):
            yield ("render-not-digits", render, "ASCII digits")
        if len(render) != int(ln):
            yield ("len", "len=%s render=%s" % (ln, render), "len == |render|")
        if render != "0" * lz + buf:
            yield ("render", render, "0"*lz + buf)
        if "P" in pfs:
            yield ("panic", "is_position_free panicked", "no panic")
        if "P" in rfs[:5] or "P" in rfs[7:]:
            yield ("panic", "is_range_free(a<b) panicked (queries: (0,1) (1,2) (3,5) (6,8) (2,9) | (0,MAX) (1,MAX) (MAX-1,MAX) (5,2^40)): %s" % rfs, "no panic")
        if "P" in frees:
            yield ("panic", "is_free panicked", "no panic")
        # semantic content of the extreme queries: everything from position s upwards is free iff the digits there are zeros
        if len(rfs) >= 11 and "P" not in rfs[7:]:
            want = ["1" if set(buf) <= {"0"} else "0",
                    "1" if set(buf[:-1]) <= {"0"} else "0",
                    "1", "1" if set(buf[:-5]) <= {"0"} else "0"]
            if list(rfs[7:11]) != want:
                yield ("range-free-extreme", "is_range_free with huge end on %r: %s" % (buf, rfs[7:11]), "".join(want))
        if i > 0:
            op = ops[i - 1].split(":")
            kind = op[0]
            mut = kind in ("put", "at", "sh", "fput", "push")
            if res.startswith("ERR") and cur["snap"] != prev["snap"]:
                yield ("failure-atomicity", "%s: %s -> %s" % (ops[i - 1], prev["snap"], cur["snap"]), "unchanged on error")
            if prev["frozen"] and mut:
                if res != "ERR:Frozen":
                    yield ("frozen", "%s on frozen builder: %s" % (ops[i - 1], res), "ERR:Frozen")
            elif res == "OK" and mut:
                pv = int(prev["buf"] or "0")
                cv = int(buf or "0")
                canon = prev["buf"] == "" or prev["buf"][0] != "0"
                nz = lambda s: s.replace("0", "")
                if kind == "put":
                    ds = op[1]
                    if prev["buf"] == "" and ds == "0":
                        if not (lz == prev["lz"] + 1 and buf == ""):
                            yield ("zero", "%s -> %s" % (prev["snap"], cur["snap"]), "leading zero counted")
                    else:
                        if set(ds) <= {"0"}:
                            yield ("zero", "put:%s accepted on %s" % (ds, prev["snap"]), "zeros only while the value is zero")
                        if cv != pv + int(ds):
                            yield ("put-value", "%d" % cv, "%d" % (pv + int(ds)))
                        if prev["buf"] and set(prev["buf"][-len(ds):]) - {"0"}:
                            yield ("put-free", prev["buf"], "target positions free")
                        if not _is_subseq(nz(prev["buf"]), buf):
                            yield ("digit-lost", "%s -> %s" % (prev["buf"], buf), "previous non-zero digits kept in order")
                        if lz != prev["lz"]:
                            yield ("zero", "lz changed", "leading zeros kept")
                elif kind == "at":
                    d, p = int(op[1]), int(op[2])
                    if cv != pv + d * 10 ** p:
                        yield ("putat-value", "%d" % cv, "%d" % (pv + d * 10 ** p))
                    if not _is_subseq(nz(prev["buf"]), buf):
                        yield ("digit-lost", "%s -> %s" % (prev["buf"], buf), "previous non-zero digits kept in order")
                elif kind == "sh" and canon:
                    p = int(op[1])
                    if p == 0:
                        exp = pv
                    else:
                        g = pv % (10 ** p)
                        if g == 0:
                            g = 1
                            exp = pv + 10 ** p
                        else:
                            exp = pv - g + g * 10 ** p
                    if cv != exp:
                        yield ("shift-value", "%s sh:%d -> %s" % (prev["buf"], p, buf), "%d" % exp)
                    if not _is_subseq(nz(prev["buf"]), buf):
                        yield ("digit-lost", "%s -> %s" % (prev["buf"], buf), "previous non-zero digits kept in order")
                elif kind == "push":
                    if render != prev["render"] + op[1]:
                        yield ("push", render, prev["render"] + op[1])
        prev = cur


def oracle_c12(ctx, focus):
    reqs, impl, _ = ctx._cache["ds"]
    failures = []
    shapes = set()
    n = 0
    for r, a in zip(reqs, impl):
        n += 1
        shapes.add(a.rsplit(";", 1)[-1].split("|", 1)[0] + str(len(a.split(";"))))
        for (what, obs, exp) in check_ds_answer(r, a):
            if len(failures) < 5000:
                failures.append(fail(r.split("\t")[1], "%s: %s" % (what, obs), exp, [r], clause=what))
    ctx.samples["c12"] = [{"ops": reqs[len(reqs) // 3].split("\t")[1], "answer": impl[len(reqs) // 3][:200]}]
    return {"evaluations": n, "distinct_nontrivial": len(set(impl)), "failures": failures,
            "rule": "every S-ds operation sequence; distinct = distinct final answers"}


# ------------------------------------------------------------------------------------------------
# specification-driven oracles (C01, C04, C05, C08, C16): inputs and expectations come from the Lean
# spellers (`gen` requests answered by the driver from T2N/Spec, not from the model of the code)

def run_gen(ctx, tag, lines):
    reqp = ctx.path(tag + ".greq")
    with open(reqp, "w", encoding="utf-8") as f:
        for l in lines:
            f.write(l + "\n")
    outp = ctx.path(tag + ".gout")
    rc, err = t2nlib.run_exec(t2nlib.DRIVER_BIN, reqp, outp, args=("--cc", t2nlib.ensure_cc_table()))
    if rc != 0:
        raise RuntimeError("driver failed: " + err)
    out = open(outp, encoding="utf-8").read().split("\n")
    if out and out[-1] == "":
        out.pop()
    assert len(out) == len(lines), (len(out), len(lines))
    return out


CONTEXT = {
    "en": ("we saw", "cats there"), "fr": ("nous avons vu", "chats hier"), "es": ("vimos", "gatos ayer"),
    "pt": ("vimos", "gatos ontem"), "it": ("abbiamo visto", "gatti ieri"), "de": ("wir sahen", "Katzen dort"),
    "nl": ("wij zagen", "katten daar"),
}

BOUNDARY = [1, 2, 7, 9, 10, 11, 12, 15, 16, 17, 19, 20, 21, 22, 28, 30, 31, 38, 40, 60, 61, 70, 71, 77, 80, 81, 88, 90,
            91, 99, 100, 101, 110, 111, 115, 120, 121, 200, 300, 500, 700, 900, 999, 800, 880]


def card_numbers(tier, seed, lang_idx):
    rng = SplitMix64(seed * 7919 + lang_idx)
    out = []
    small = 3000 if tier != "thorough" else 100000
    for n in range(small):
        out.append((n, 0))
        out.append((n, 1 + rng.below(10 ** 6)))
    for g in range(1, 1000):
        for sc in (10 ** 3, 10 ** 6, 10 ** 9):
            out.append((g * sc, 0))
            out.append((g * sc + rng.below(sc), 1 + rng.below(10 ** 6)))
    for a in BOUNDARY:
        for b in BOUNDARY:
            out.append((a * 1000 + b, 1 + rng.below(10 ** 6)))
            if tier == "thorough" or rng.chance(1, 3):
                out.append((a * 10 ** 6 + b, 1 + rng.below(10 ** 6)))
                out.append((a * 10 ** 9 + b * 10 ** 3, 1 + rng.below(10 ** 6)))
                out.append((a * 10 ** 9 + b * 10 ** 6 + a * 1000 + b, 1 + rng.below(10 ** 6)))
    for _ in range(4000 if tier != "thorough" else 200000):
        n = rng.below(10 ** 12)
        if rng.chance(1, 3):
            # sparse numbers: zero out some groups
            gs = [rng.below(1000) if rng.chance(1, 2) else 0 for _ in range(4)]
            n = gs[0] * 10 ** 9 + gs[1] * 10 ** 6 + gs[2] * 10 ** 3 + gs[3]
        out.append((n, rng.below(10 ** 6)))
    return out


def _spec_cases(ctx, tag, genlines):
    """run gen lines; return list of (genline, phrase, expected) skipping '-' (not spelled)"""
    outs = run_gen(ctx, tag, genlines)
    cases = []
    for g, o in zip(genlines, outs):
        if o in ("-", "no-lang", "bad-gen") or "|" not in o:
            continue
        ph, exp = o.split("|", 1)
        cases.append((g, unesc(ph), exp))
    return cases


def _check_val_and_text(ctx, tag, lang, cases, thr="0000000000000000", with_text=True, expect_ordinal=None):
    """cases: (genline, phrase, expected_escaped). Checks validation and in-sentence rewriting."""
    pre, suf = CONTEXT[lang]
    reqs = []
    for (g, ph, exp) in cases:
        reqs.append("val\t%s\t%s" % (lang, esc(ph)))
        if with_text:
            reqs.append("occ\t%s\t%s\t%s" % (lang, thr, esc(pre + " " + ph + " " + suf)))
            reqs.append("text\t%s\t%s\t%s" % (lang, thr, esc(pre + " " + ph + " " + suf)))
    outs = run_impl(ctx, tag, reqs)
    failures = []
    step = 3 if with_text else 1
    for i, (g, ph, exp) in enumerate(cases):
        v = outs[i * step]
        if v != "OK:" + exp:
            failures.append(fail(ph, "validate -> " + unesc(v), unesc(exp), [reqs[i * step]], lang=lang, gen=g, what="validate"))
            continue
        if with_text:
            occ = outs[i * step + 1]
            txt = outs[i * step + 2]
            want = esc(pre + " " + unesc(exp) + " " + suf)
            if txt != want:
                failures.append(fail(ph, "rewrite -> " + unesc(txt), unesc(want), [reqs[i * step + 2]], lang=lang, gen=g, what="rewrite"))
                continue
            occs = [o for o in occ.split("|")[0].split(",") if o]
            if len(occs) != 1:
                failures.append(fail(ph, "occurrences: " + occ.split("|")[0], "exactly one occurrence", [reqs[i * step + 1]], lang=lang, gen=g, what="split"))
                continue
            f = occs[0].split(":")
            if expect_ordinal is not None and f[2] != ("1" if expect_ordinal else "0"):
                failures.append(fail(ph, "is_ordinal=" + f[2], "is_ordinal=%d" % expect_ordinal, [reqs[i * step + 1]], lang=lang, gen=g, what="flag"))
    return failures, len(reqs)


# request seeds of the uniform variant functions (every choice point takes option k), see Driver/Gen.lean `varOf`
UNIFORM = tuple(10 ** 9 + k for k in (1, 2, 3, 4, 5))


def long_groups(ctx, lang, k=16):
    """the 3-digit groups whose standard spelling is longest in UTF-8 bytes (a boundary class of its own: buffers,
    length limits and byte/char confusions bite there first) — computed from the Lean speller"""
    key = "longgroups_" + lang
    if key not in ctx._cache:
        cs = _spec_cases(ctx, "lg" + lang, ["gen\tcard\t%s\t%d\t0" % (lang, g) for g in range(1, 1000)])
        sc = sorted(((len(unesc(ph).encode("utf-8")), int(g.split("\t")[3])) for (g, ph, e) in cs), reverse=True)
        ctx._cache[key] = [g for (_, g) in sc[:k]]
    return ctx._cache[key]


def long_numbers(ctx, lang, limit=10 ** 12):
    gs = long_groups(ctx, lang)
    out = []
    for a in gs:
        for b in gs:
            out.append(a * 1000 + b)
    for a in gs[:8]:
        for b in gs[:8]:
            out.append(a * 10 ** 9 + b * 10 ** 6 + a * 1000 + b)
            out.append(a * 10 ** 6 + b)
    return [x for x in out if x < limit]


def oracle_c01(ctx, focus, langs=None):
    failures, n, distinct = [], 0, set()
    for li, lang in enumerate(langs or LANGS):
        nums = card_numbers(ctx.tier, ctx.seed, li)
        nums += [(x, sd) for x in long_numbers(ctx, lang) for sd in (0, 1 + (x % 999983)) + UNIFORM]
        gl = ["gen\tcard\t%s\t%d\t%d" % (lang, n_, s) for (n_, s) in nums]
        cases = _spec_cases(ctx, "c01" + lang, gl)
        # text-level check on a third of the cases
        a = [c for i, c in enumerate(cases) if i % 3 == 0]
        b = [c for i, c in enumerate(cases) if i % 3 != 0]
        f1, n1 = _check_val_and_text(ctx, "c01t" + lang, lang, a, with_text=True, expect_ordinal=0)
        f2, n2 = _check_val_and_text(ctx, "c01v" + lang, lang, b, with_text=False)
        failures += f1 + f2
        n += n1 + n2
        # the same inside LONG sentences: z ordinary words before and after, z a size mined from the source (srcmine.py)
        wd = CONTEXT[lang][0].split(" ")[0]
        far, freq = [], []
        multiw = [c for c in cases if " " in c[1]] or cases
        for z in _srcmine.sizes(41, 1100000):
            for (g, ph, exp) in multiw[:: max(1, len(multiw) // 3)][: (3 if z < 20000 else 1)]:
                far.append((z, g, ph, exp))
                freq.append("text\t%s\t%s\t%s" % (lang, THR0, esc((wd + " ") * z + ph + (" " + wd) * z)))
        for (z, g, ph, exp), o in zip(far, run_impl(ctx, "c01far" + lang, freq) if freq else []):
            n += 1
            if unesc(o) != (wd + " ") * z + unesc(exp) + (" " + wd) * z:
                k_ = unesc(o)[max(0, z * (len(wd) + 1) - 20): z * (len(wd) + 1) + len(ph) + 20]
                failures.append(fail("%d x '%s' + %s + %d x '%s'" % (z, wd, ph, z, wd), "rewrite -> ... " + k_ + " ...", unesc(exp),
                                     ["text\t%s\t%s\t%s" % (lang, THR0, esc((wd + " ") * z + ph + (" " + wd) * z))], lang=lang, gen=g, what="rewrite-far"))
        distinct |= {(lang, c[1]) for c in cases}
        if cases:
            ctx.samples.setdefault("c01", []).append({"lang": lang, "phrase": cases[len(cases) // 2][1], "expected": unesc(cases[len(cases) // 2][2])})
    return {"evaluations": n, "distinct_nontrivial": len(distinct), "failures": failures,
            "rule": "spelled cardinals from the Lean spec (all n<3000 std+random variant, every group at every scale, boundary pairs, random n<10^12); distinct = distinct phrases"}


def ord_cases(tier, seed, lang, ordmax, ninfl):
    rng = SplitMix64(seed * 104729 + len(lang) + ordmax)
    ranks = list(range(1, min(ordmax, 1500 if tier != "thorough" else 20000) + 1))
    if ordmax > 3000:
        for _ in range(3000 if tier != "thorough" else 100000):
            ranks.append(1 + rng.below(ordmax))
        ranks += [k * 1000 for k in (1, 2, 3, 10, 11, 21, 100, 101, 200, 999, 1000)] + [k * 100 for k in range(1, 100)]
    out = []
    for r in ranks:
        if r > ordmax:
            continue
        for i in range(ninfl):
            if tier == "thorough" or i == 0 or rng.chance(1, 2):
                out.append((r, rng.below(10 ** 6) if rng.chance(1, 2) else 0, i))
    return out


ORD_SPEC = {"en": (10 ** 6, 2), "fr": (10 ** 6, 6), "es": (1999, 5), "pt": (1999, 4), "it": (10 ** 6, 4),
            "de": (10 ** 6, 5), "nl": (10 ** 6, 1)}


def oracle_c04(ctx, focus, langs=None):
    failures, n, distinct = [], 0, set()
    for lang in (langs or LANGS):
        ordmax, ninfl = ORD_SPEC[lang]
        oc = ord_cases(ctx.tier, ctx.seed, lang, ordmax, ninfl)
        oc += [(r, sd, i) for r in long_numbers(ctx, lang, limit=ordmax + 1) for (sd, i) in ((0, 0), (1 + r % 999983, (r % ninfl))) + tuple((u, (r + u) % ninfl) for u in UNIFORM)]
        gl = ["gen\tord\t%s\t%d\t%d\t%d" % (lang, r, s, i) for (r, s, i) in oc]
        cases = _spec_cases(ctx, "c04" + lang, gl)
        a = [c for i, c in enumerate(cases) if i % 2 == 0]
        b = [c for i, c in enumerate(cases) if i % 2 == 1]
        f1, n1 = _check_val_and_text(ctx, "c04t" + lang, lang, a, with_text=True, expect_ordinal=1)
        f2, n2 = _check_val_and_text(ctx, "c04v" + lang, lang, b, with_text=False)
        # value = n: checked on the occurrence of the text-level cases
        failures += f1 + f2
        n += n1 + n2
        distinct |= {(lang, c[1]) for c in cases}
        if cases:
            ctx.samples.setdefault("c04", []).append({"lang": lang, "phrase": cases[len(cases) // 2][1], "expected": unesc(cases[len(cases) // 2][2])})
    return {"evaluations": n, "distinct_nontrivial": len(distinct), "failures": failures,
            "rule": "spelled ordinals (all ranks up to 1500 + random ranks up to the language's range) x inflections; distinct = distinct phrases"}


def oracle_c05(ctx, focus, langs=None):
    failures, n, distinct = [], 0, set()
    for li, lang in enumerate(langs or LANGS):
        rng = SplitMix64(ctx.seed * 31337 + li)
        gl = []
        ints = [0, 1, 2, 9, 10, 12, 21, 80, 99, 100, 101, 1000, 1999, 2020, 10 ** 6, 123456789]
        fr3 = ["%d" % d for d in range(10)] + ["%02d" % d for d in range(100)] + ["%03d" % d for d in range(0, 1000, 7)]
        for i_ in ints:
            for d in (fr3 if ctx.tier == "thorough" else fr3[::3]):
                gl.append("gen\tdec\t%s\t%d\t%d\t%s" % (lang, i_, 0, d))
        for _ in range(3000 if ctx.tier != "thorough" else 100000):
            k = 1 + rng.below(6)
            d = "".join(str(rng.below(10)) if rng.chance(2, 3) else "0" for _ in range(k))
            gl.append("gen\tdec\t%s\t%d\t%d\t%s" % (lang, rng.below(10 ** 9) if rng.chance(1, 2) else rng.below(1000), rng.below(10 ** 6), d))
        # the wordiest cases: the longest integer spellings (below 10^9) with the longest 3- and 6-digit fractions, in
        # several variant functions (split / unhyphenated styles have the most words)
        lg = long_groups(ctx, lang)[:6]
        longints = [x for x in long_numbers(ctx, lang, limit=10 ** 9) if x >= 10 ** 6][:24] + [a * 10 ** 6 + b * 10 ** 3 + a for a in lg[:4] for b in lg[:4]]
        longfr = ["%03d" % a for a in lg] + ["%03d%03d" % (a, b) for a in lg[:4] for b in lg[:4]]
        for x in longints:
            for d in longfr[:: 1 if ctx.tier == "thorough" else 3]:
                for sd in (0, 1 + (x % 99991)) + UNIFORM:
                    gl.append("gen\tdec\t%s\t%d\t%d\t%s" % (lang, x, sd, d))
        cases = _spec_cases(ctx, "c05" + lang, gl)
        pre, suf = CONTEXT[lang]
        reqs = []
        for (g, ph, exp) in cases:
            th = rng.choice(["0000000000000000", t2nlib.thr_bits(10.0), t2nlib.thr_bits(float("inf"))])
            reqs.append("occ\t%s\t%s\t%s" % (lang, th, esc(pre + " " + ph + " " + suf)))
            reqs.append("text\t%s\t%s\t%s" % (lang, th, esc(pre + " " + ph + " " + suf)))
        outs = run_impl(ctx, "c05" + lang, reqs)
        for i, (g, ph, exp) in enumerate(cases):
            want = esc(pre + " " + unesc(exp) + " " + suf)
            occs = [o for o in outs[2 * i].split("|")[0].split(",") if o]
            if outs[2 * i + 1] != want:
                failures.append(fail(ph, "rewrite -> " + unesc(outs[2 * i + 1]), unesc(want), [reqs[2 * i + 1]], lang=lang, gen=g, what="rewrite"))
            elif len(occs) != 1:
                failures.append(fail(ph, "occurrences " + outs[2 * i], "one occurrence", [reqs[2 * i]], lang=lang, gen=g, what="split"))
            else:
                f = occs[0].split(":")
                expv = t2nlib.f64bits(float(unesc(exp).replace(",", ".")))
                if f[3] != expv or f[2] != "0":
                    failures.append(fail(ph, "value bits %s ordinal %s" % (f[3], f[2]), "value %s, not ordinal" % expv, [reqs[2 * i]], lang=lang, gen=g, what="value"))
        n += len(reqs)
        distinct |= {(lang, c[1]) for c in cases}
        # separator alone / nothing usable after
        sepreqs, sepwant = [], []
        gl2 = ["gen\tdec\t%s\t%d\t0\t5" % (lang, k) for k in (3, 21)]
        for (g, ph, exp) in _spec_cases(ctx, "c05s" + lang, gl2):
            words = ph.split(" ")
            sepw = words[-2]
            intp = " ".join(words[:-2])
            intd = unesc(exp).replace(",", ".").split(".")[0]
            for text, want in ((sepw + " " + suf, sepw + " " + suf),                # no number before
                               (pre + " " + sepw + " " + words[-1], None),           # separator after a non-number: stays a word
                               (intp + " " + sepw + " " + suf, intd + " " + sepw + " " + suf),   # nothing usable after
                               (intp + " " + sepw, intd + " " + sepw)):
                sepreqs.append("text\t%s\t0000000000000000\t%s" % (lang, esc(text)))
                sepwant.append((text, want, sepw))
        souts = run_impl(ctx, "c05s" + lang, sepreqs)
        for r, o, (text, want, sepw) in zip(sepreqs, souts, sepwant):
            got = unesc(o)
            if want is not None and got != want:
                failures.append(fail(text, got, want, [r], lang=lang, what="separator-alone"))
            if want is None and sepw not in got:
                failures.append(fail(text, got, "separator word kept", [r], lang=lang, what="separator-alone"))
        n += len(sepreqs)
        if cases:
            ctx.samples.setdefault("c05", []).append({"lang": lang, "phrase": cases[len(cases) // 2][1], "expected": unesc(cases[len(cases) // 2][2])})
    return {"evaluations": n, "distinct_nontrivial": len(distinct), "failures": failures[:5000],
            "rule": "integer x fraction-digit-string grid + random (n<10^9, 1-6 digits) at thresholds 0/10/inf; separator-alone cases"}


def oracle_c16(ctx, focus, langs=None):
    failures, n, distinct = [], 0, set()
    for li, lang in enumerate(langs or LANGS):
        rng = SplitMix64(ctx.seed * 7 + li + 99)
        gl = ["gen\tzeros\t%s\t1\t0\t0" % lang]
        nums = [x for x in card_numbers("quick", ctx.seed, li) if 0 < x[0] < 10 ** 9]
        step = 1 if ctx.tier == "thorough" else 4
        for idx, (n_, s) in enumerate(nums):
            if idx % step:
                continue
            k = rng.below(7)
            gl.append("gen\tzeros\t%s\t%d\t%d\t%d" % (lang, k, n_, s))
        cases = _spec_cases(ctx, "c16" + lang, gl)
        # `zeros 1 0` is "zero zero" -> not in the property; replace by the lone zero
        cases = [c for c in cases if not c[0].endswith("\t1\t0\t0")]
        f1, n1 = _check_val_and_text(ctx, "c16" + lang, lang, cases, with_text=True)
        failures += f1
        n += n1
        # lone zero
        z = _spec_cases(ctx, "c16z" + lang, ["gen\tzeros\t%s\t0\t0\t0" % lang])
        f2, n2 = _check_val_and_text(ctx, "c16z" + lang, lang, z, with_text=True)
        failures += f2
        n += n2
        # zero after a number
        gl3 = ["gen\tzeroafter\t%s\t%d\t%d" % (lang, n_, s) for idx, (n_, s) in enumerate(nums) if idx % (step * 5) == 0]
        za = _spec_cases(ctx, "c16a" + lang, gl3)
        reqs = ["text\t%s\t0000000000000000\t%s" % (lang, esc(ph)) for (g, ph, exp) in za]
        outs = run_impl(ctx, "c16a" + lang, reqs)
        for r, o, (g, ph, exp) in zip(reqs, outs, za):
            if o != exp:
                failures.append(fail(ph, unesc(o), unesc(exp), [r], lang=lang, gen=g, what="zero-after"))
        n += len(reqs)
        distinct |= {(lang, c[1]) for c in cases + za}
        if cases:
            ctx.samples.setdefault("c16", []).append({"lang": lang, "phrase": cases[len(cases) // 2][1], "expected": unesc(cases[len(cases) // 2][2])})
    return {"evaluations": n, "distinct_nontrivial": len(distinct), "failures": failures[:5000],
            "rule": "k in [0,6] zeros x cardinals n<10^9 (C01 input sets), lone zero, zero after a number"}


def _norm_words(lang, phrase, conj):
    """words of a phrase with hyphens opened, conjunction words removed (conjunctions are optional, as in
    C01), French plural s stripped (plural scale words are an accepted variant)"""
    ws = [w for part in phrase.split(" ") for w in part.split("-") if w]
    ws = [w for w in ws if w != conj]
    if lang == "fr":
        ws = [w.rstrip("s") if (w != "trois" and len(w) > 3) else w for w in ws]
    return tuple(ws)


def oracle_c08(ctx, focus, langs=None):
    failures, n, distinct = [], 0, set()
    for li, lang in enumerate(langs or LANGS):
        rng = SplitMix64(ctx.seed * 13 + li)
        # table: normalised spelling -> numbers below 200 it spells (all variant seeds 0..47)
        tl = ["gen\tcard\t%s\t%d\t%d" % (lang, c, sd) for c in range(200) for sd in range(48)]
        spell_of = {}
        std = {}
        conj = unesc(run_gen(ctx, "c08j" + lang, ["gen\tpair\t%s\t1\t1\t1" % lang])[0].split("|")[0]).split(" ")
        conj = conj[1] if len(conj) == 3 else ""
        for g, ph, exp in _spec_cases(ctx, "c08t" + lang, tl):
            c = int(g.split("\t")[3])
            spell_of.setdefault(_norm_words(lang, ph, conj), set()).add(c)
            if g.endswith("\t0") and c < 100:
                std[c] = ph
        cases = []
        for a in range(100):
            for b in range(100):
                for j in (0, 1):
                    ph = std[a] + (" " + conj if j else "") + " " + std[b]
                    allowed = ["%d %s %d" % (a, conj, b) if j else "%d %d" % (a, b)]
                    if a == 0:
                        allowed.append("0%d" % b)
                    for c in sorted(spell_of.get(_norm_words(lang, ph, conj), ())):
                        allowed.append(str(c))
                    cases.append(("pair %s %d %d %d" % (lang, a, b, j), ph, allowed))
        reqs = ["text\t%s\t0000000000000000\t%s" % (lang, esc(ph)) for (g, ph, al) in cases]
        res = run_impl(ctx, "c08" + lang, reqs)
        for r, o, (g, ph, al) in zip(reqs, res, cases):
            if unesc(o) not in al:
                failures.append(fail(ph, unesc(o), " | ".join(al), [r], lang=lang, gen=g, what="pair"))
        n += len(reqs)
        distinct |= {(lang, c[1]) for c in cases}
        # dictation
        maxlen = 5 if ctx.tier != "thorough" else 6
        digs = []
        for L in range(1, maxlen + 1):
            if L <= 4:
                digs += ["%0*d" % (L, x) for x in range(10 ** L)]
            else:
                digs += ["%0*d" % (L, rng.below(10 ** L)) for _ in range(6000)]
        digs += ["".join(str(rng.below(10)) if rng.chance(1, 2) else "0" for _ in range(6 + rng.below(7))) for _ in range(2000)]
        gl2 = ["gen\tdict\t%s\t%s" % (lang, d) for d in digs]
        dc = _spec_cases(ctx, "c08d" + lang, gl2)
        reqs = ["text\t%s\t0000000000000000\t%s" % (lang, esc(ph)) for (g, ph, exp) in dc]
        res = run_impl(ctx, "c08d" + lang, reqs)
        for r, o, (g, ph, exp) in zip(reqs, res, dc):
            if o != exp:
                failures.append(fail(ph, unesc(o), unesc(exp), [r], lang=lang, gen=g, what="dictation"))
        n += len(reqs)
        distinct |= {(lang, c[1]) for c in dc}
        if cases:
            ctx.samples.setdefault("c08", []).append({"lang": lang, "phrase": cases[2143][1], "allowed": cases[2143][2]})
    return {"evaluations": n, "distinct_nontrivial": len(distinct), "failures": failures[:5000],
            "rule": "all pairs (a,b) in [0,99]^2 x {space, conjunction}; all digit strings of length <= 4, sampled longer ones"}


if __name__ == "__main__":
    # ad-hoc: python3 tools/oracles.py c01 fr [tier] [seed]
    import tempfile, shutil, json, props
    name, lang = sys.argv[1], sys.argv[2]
    tier = sys.argv[3] if len(sys.argv) > 3 else "quick"
    seed = int(sys.argv[4]) if len(sys.argv) > 4 else 1
    ok, msg = t2nlib.build_harness()
    if not ok:
        print(msg); sys.exit(2)
    work = tempfile.mkdtemp(prefix="orc_", dir=t2nlib.BUILD)
    try:
        ctx = props.Ctx("adhoc", tier, seed, work)
        res = globals()["oracle_" + name](ctx, [], langs=[lang])
        fs = res.pop("failures")
        print(json.dumps(res, ensure_ascii=False))
        by = {}
        for f in fs:
            by.setdefault(f.get("what"), []).append(f)
        for k, v in by.items():
            print("== %s: %d failures (showing up to 15)" % (k, len(v)))
            for f in v[:15]:
                print("  input=%r observed=%r expected=%r" % (f["input"], f["observed"], f["expected"]))
        print("failures=%d" % len(fs))
    finally:
        shutil.rmtree(work, ignore_errors=True)


# ------------------------------------------------------------------------------------------------
# shared sentence material for the metamorphic oracles

LINKING = {}


def linking_words(lang):
    if lang not in LINKING:
        import vocab
        p = os.path.join(t2nlib.REPO, "src", "lang", lang, "vocabulary.rs")
        ws = [w for w in vocab.LIT.findall(open(p, encoding="utf-8").read()) if " " not in w]
        LINKING[lang] = ws
    return LINKING[lang]


def phrase_bank(ctx, lang):
    """spelled numbers (cardinals, ordinals, decimals) from the Lean spec; falls back to single words"""
    key = "bank_" + lang
    if key in ctx._cache:
        return ctx._cache[key]
    rng = SplitMix64(ctx.seed * 977 + len(lang) * 31 + ord(lang[0]))
    gl = []
    for n in [0, 1, 2, 3, 5, 7, 8, 9, 10, 11, 12, 15, 16, 20, 21, 22, 30, 31, 45, 70, 71, 80, 81, 90, 99, 100, 101, 115,
              200, 342, 1000, 1001, 1999, 2020, 10000, 21000, 100000, 1000000, 2000100, 53000243724]:
        gl.append("gen\tcard\t%s\t%d\t%d" % (lang, n, 0))
        gl.append("gen\tcard\t%s\t%d\t%d" % (lang, n, 1 + rng.below(10 ** 6)))
    for _ in range(60):
        gl.append("gen\tcard\t%s\t%d\t%d" % (lang, rng.below(10 ** rng.choice([1, 1, 2, 2, 3, 4, 6, 9, 12])), rng.below(10 ** 6)))
    for r in [1, 2, 3, 4, 5, 8, 9, 10, 11, 12, 20, 21, 30, 100, 101, 1000]:
        for i in range(2):
            gl.append("gen\tord\t%s\t%d\t%d\t%d" % (lang, r, rng.below(100), i))
    for _ in range(25):
        gl.append("gen\tdec\t%s\t%d\t%d\t%s" % (lang, rng.below(1000), rng.below(100), "".join(str(rng.below(10)) for _ in range(1 + rng.below(3)))))
    cases = _spec_cases(ctx, "bank" + lang, gl)
    bank = [c[1] for c in cases if c[1]]
    if len(bank) < 10:
        bank = [w for w in streams.bank(lang)["num"] if w.isalpha()][:200]
    ctx._cache[key] = bank
    return bank


PUNCT = [", ", ". ", "; ", ": ", "! ", "? ", " (", ") ", " - ", " / ", "... ", " \"", "\" ", ".", ",",
         # punctuation glued to both neighbours, Unicode dashes and dots (typeset hyphen, non-breaking hyphen, en/em dash,
         # middle dot, hyphenation point, ellipsis), ASCII hyphen and slash without blanks
         "\u2010", "\u2011", "\u2013", "\u2014", "\u00b7", "\u2027", "\u2026", "-", "/", " \u2013 ", "\u2010 ",
         # punctuation glued to punctuation: one token that CONTAINS a full stop is not a lone period
         ".\" ", ".) ", ".\u00bb ", ".\u201d ", ".\u2019 ", " \".", " (.", "., ", ",. ", ".. ", ".- ", "?! ", ".\u00a0", " . ", ". . "]


import srcmine as _srcmine
for _c in _srcmine.special_chars():          # source-directed probing: characters written in literals of the current source
    for _v in (_c, _c + " ", " " + _c + " "):
        if _v not in PUNCT:
            PUNCT.append(_v)


def sentence(rng, lang, bank, k=None, seps=None, extra=()):
    """random sentence: number phrases, ordinary words, linking words, punctuation"""
    k = k if k is not None else 1 + rng.below(6)
    ord_ = streams.ORDINARY[lang]
    link = linking_words(lang)
    parts = []
    for i in range(k):
        r = rng.below(100)
        if r < 50:
            w = rng.choice(bank)
        elif r < 70:
            w = rng.choice(ord_)
        elif r < 82:
            w = rng.choice(link)
        elif r < 90 and extra:
            w = rng.choice(extra)
        else:
            w = rng.choice(streams.bank(lang)["num"])
        if i:
            parts.append(rng.choice(seps) if seps else (" " if rng.chance(3, 4) else rng.choice(PUNCT)))
        parts.append(w)
    return "".join(parts)


def parse_occ_answer(ans):
    """`occ` answer -> (list of (start, end, text, ord, valbits), list of (token text, nan))"""
    if ans == "PANIC":
        return None, None
    o, t = ans.split("|", 1)
    occs = []
    for x in o.split(","):
        if x:
            se, text, od, vb = x.split(":")
            s, e = se.split("-")
            occs.append((int(s), int(e), unesc(text), od == "1", vb))
    toks = []
    for x in t.split(","):
        if x != "":
            tt, nan = x.rsplit(":", 1)
            toks.append((unesc(tt), nan == "1"))
    return occs, toks


def focus_texts(focus):
    """texts behind the correspondence disagreements (shrunk form preferred): the oracle looks at them first"""
    out = []
    for d in focus or []:
        r = d.get("shrunk") or d.get("request") or ""
        f = r.split("\t")
        try:
            if f[0] == "tok":
                out.append((None, unesc(f[1])))
            elif f[0] in ("text", "occ"):
                out.append((f[1].split(":")[-1], unesc(f[3])))
            elif f[0] == "val":
                out.append((f[1].split(":")[-1], unesc(f[2])))
            elif f[0] == "scan":
                out.append((f[1].split(":")[-1], " ".join(unesc(x.split(",")[0]) for x in f[3].split(" ") if x)))
            elif f[0] in ("apply", "applydec"):
                st = f[3].split("|")
                out.append((f[1].split(":")[-1], "__apply__:%s:%s" % (unesc(f[2]), f[3])))
        except Exception:
            pass
    return out


ALL_THR = [t2nlib.thr_bits(x) for x in (float("-inf"), -1.0, 0.0, 0.5, 1.0, 5.0, 9.0, 10.0, 10.5, 1e9, float("inf"), float("nan"))]
THR0 = "0000000000000000"


# ------------------------------------------------------------------------------------------------
# C02: rewriting is local

def oracle_c02(ctx, focus):
    failures, n, distinct = [], 0, set()
    reqs, meta = [], []
    for li, lang in enumerate(LANGS):
        rng = SplitMix64(ctx.seed * 101 + li)
        bank = phrase_bank(ctx, lang)
        texts = list(streams.bank(lang)["tests"])
        for _ in range(1500 if ctx.tier != "thorough" else 30000):
            t = sentence(rng, lang, bank, extra=["x-y", "l'a", "é", "日本", "á", "\U0001F600", "o", "neuf", "Ça", "naïve", "pro\u00adgramme", "\u00ad", "a\u200bb", "\ufeffx", "x\u0000y", "a\u2060b", "\u200d", "q\u02b0", "\ue000"])
            if rng.chance(1, 5):
                t = rng.choice([" ", "\t", "…", "(", "-", "'"]) + t
            if rng.chance(1, 5):
                t = t + rng.choice([" ", "\n", ".", "!", " -", "'"])
            texts.append(t)
        texts += ["", " ", "-", "--", "...", "a", "日本語", "no numbers here, at all.", "pre- and post-war", "wait-- what?", "l'- a", "x-", "x'", "x-'y"]
        # a number of several words, and a pair of small numbers, after z ordinary words, z a size mined from the source
        multi_ = [p_ for p_ in bank if " " in p_] or bank
        single_ = [p_ for p_ in bank if " " not in p_] or bank
        for z in _srcmine.sizes(41, 1100000):
            texts.append("so " * z + rng.choice(multi_) + " x.")
            if z < 20000:
                texts.append("so " * z + rng.choice(single_) + ", " + rng.choice(single_) + " x.")
        texts = [t for (l, t) in focus_texts(focus) if (l in (None, lang)) and not t.startswith("__apply__")] + texts
        for t in texts:
            th = rng.choice(ALL_THR)
            reqs += ["tok\t" + esc(t), "occ\t%s\t%s\t%s" % (lang, th, esc(t)), "text\t%s\t%s\t%s" % (lang, th, esc(t))]
            meta.append((lang, t))
    outs = run_impl(ctx, "c02", reqs)
    for i, (lang, t) in enumerate(meta):
        tk, oc, tx = outs[3 * i], outs[3 * i + 1], outs[3 * i + 2]
        rq = reqs[3 * i:3 * i + 3]
        n += 3
        if "PANIC" in (tk, oc, tx):
            failures.append(fail(t, "PANIC", "returns", rq, lang=lang, what="panic"))
            continue
        toks = [unesc(x.split(":")[0]) for x in tk.split(",")] if tk else []
        if "".join(toks) != t:
            failures.append(fail(t, "tokens concat = %r" % "".join(toks), "lossless tokenization", [rq[0]], lang=lang, what="tokenize"))
            continue
        occs, otoks = parse_occ_answer(oc)
        if [x[0] for x in otoks] != toks:
            failures.append(fail(t, "occ tokens differ from tokenizer", "same tokens", rq[:2], lang=lang, what="tokens"))
            continue
        # splice
        out, pos, bad = [], 0, False
        for (s, e, text, _, _) in occs:
            if not (pos <= s < e <= len(toks)):
                bad = True
                break
            out.extend(toks[pos:s])
            out.append(text)
            pos = e
        out.extend(toks[pos:])
        got = unesc(tx)
        if bad or "".join(out) != got:
            failures.append(fail(t, got, "".join(out) if not bad else "ordered in-bounds spans", rq, lang=lang, what="splice"))
        if not occs and got != t:
            failures.append(fail(t, got, t, rq, lang=lang, what="no-number-identity"))
        distinct.add((lang, len(occs), len(toks)))
    # token-wise clause on streams: replaced trace of the scan answers (script stream, implementation side)
    sreqs, simpl, _ = ctx._cache.get("script", ([], [], []))
    for r, a in zip(sreqs, simpl):
        n += 1
        msg = check_replace_trace(r, a)
        if msg:
            failures.append(fail(r.split("\t", 3)[3], msg, "each token kept or handed once, in order, to the occurrence covering it", [r], what="stream-partition"))
    ctx.samples["c02"] = [{"lang": meta[len(meta) // 2][0], "text": meta[len(meta) // 2][1]}]
    return {"evaluations": n, "distinct_nontrivial": len(distinct) + len(set(simpl)), "failures": failures[:5000],
            "rule": "texts with punctuation/hyphens/apostrophes/multi-byte chars/several numbers: concat(tokens)=s, text=splice(tokens, occurrences); stream traces of the recording Replace"}


def check_replace_trace(req, ans):
    if ans == "PANIC":
        return "PANIC"
    parts = ans.split("|")
    if len(parts) == 4 and parts[3].startswith("PARTIAL"):
        return "with a Replace constructor that reads only %s of the replaced tokens the stream becomes %s" % (
            "none" if parts[3].startswith("PARTIAL0") else "the first", parts[3].split(":", 1)[1][:300])
    if len(parts) != 3:
        return "malformed answer"
    occs = [x for x in parts[0].split(",") if x]
    ntok = len([x for x in req.split("\t")[3].split(" ") if x])
    out = [x for x in parts[2].split(",") if x]
    spans = []
    for o in occs:
        se = o.split(":")[0]
        s, e = se.split("-")
        spans.append((int(s), int(e), o.split(":")[1]))
    seen = []
    ri = 0
    for x in out:
        if x[0] == "K":
            seen.append(int(x[1:]))
        else:
            m = re.fullmatch(r"R([^\[]*)\[([0-9.M]*)\]", x)
            if not m:
                return "malformed replaced token " + x
            ch = [c for c in m.group(2).split(".") if c]
            if "M" in ch:
                return "replaced token swallowed another replacement"
            ch = [int(c) for c in ch]
            if ri >= len(spans):
                return "more replacements than occurrences"
            s, e, text = spans[ri]
            ri += 1
            if ch != list(range(s, e)) or m.group(1) != text:
                return "replacement %s does not cover span %d-%d" % (x, s, e)
            seen.extend(ch)
    if ri != len(spans):
        return "occurrence not replaced"
    if seen != list(range(ntok)):
        return "tokens lost, duplicated or reordered: %s" % seen[:20]
    return None


# ------------------------------------------------------------------------------------------------
# C03: totality

DEGENERATE = ["", " ", "   ", "\t\n", "-", "--", "a-", "-a", "- -", "a--b", "-'-", "'", "''", "l'", "...", " . ", ",", "日本語のテキスト",
              "Ελληνικά ΣΊΣΥΦΟΣ", "á́́", "́", "e‍", "\U0001F600\U0001F600", "ǅ", "İstanbul", "ß", " ", " ",
              "1", "123", "1st", "3.14", "½", "Ⅷ", "٣", "o", "O", "neuf", "un neuf", "point", "virgule", "and", "et", "y", "e", "und", "en",
              "zero zero zero", "-zero-", "one-", "-one", "one--two", "twenty-", "vingt-et-", "ein-und-", "﻿one", "one\x00two", "x" * 5000]


def oracle_c03(ctx, focus):
    import vocab
    failures, n = [], 0
    reqs = []
    thrs = [THR0, t2nlib.thr_bits(float("nan")), t2nlib.thr_bits(float("inf")), t2nlib.thr_bits(float("-inf")),
            "8000000000000000", "0000000000000001", t2nlib.thr_bits(-1.5), t2nlib.thr_bits(10.0)]
    rng = SplitMix64(ctx.seed + 3)
    for lang in LANGS:
        words = [w for w in vocab.source_literals(lang) if w and " " not in w and not w.isdigit()]
        inputs = list(DEGENERATE)
        inputs += [" ".join([w] * 50) for w in words[:: max(1, len(words) // (40 if ctx.tier != "thorough" else 400))]]
        inputs.append(" ".join(rng.choice(words) for _ in range(20000 if ctx.tier != "thorough" else 100000)))
        inputs.append("-".join(rng.choice(words) for _ in range(300)))
        inputs.append("".join(rng.choice(words) for _ in range(300)))
        for _ in range(300 if ctx.tier != "thorough" else 5000):
            inputs.append(streams.random_text(rng, lang, 1 + rng.below(8)))
        # multiplier stacking: scale words piled on a number inside ONE token (glued or hyphenated) or as separate words —
        # such compounds can parse to far more than 15 digits
        scales = [w for w in words if re.search(r"illi|ilj|ilh|ilh|thousand|tausend|duizend|^mil$|^mille$|^mila$|hundred|hundert|honderd|^cent|^cem$|^cien", w)]
        heads = [w for w in words if w.isalpha() and len(w) < 9][:: max(1, len(words) // 60)]
        for _ in range(500 if ctx.tier != "thorough" else 6000):
            parts = [rng.choice(heads)] + [rng.choice(scales) for _ in range(1 + rng.below(5))] if scales else [rng.choice(heads)]
            inputs.append(rng.choice(["", "-", " "]).join(parts))
        # many spoken zeros before / after / between numbers (length and emptiness predicates count them)
        bank = phrase_bank(ctx, lang)
        zw = {"en": "zero", "fr": "zéro", "es": "cero", "pt": "zero", "it": "zero", "de": "null", "nl": "nul"}[lang]
        inputs.append(" ".join([zw] * 66000 + [bank[1]]))      # more zeros than a 16-bit length can count
        for k in (1, 2, 3, 4, 7, 12):
            for ph in bank[:: max(1, len(bank) // (12 if ctx.tier != "thorough" else 120))]:
                inputs.append(" ".join([zw] * k + [ph]))
                inputs.append(ph + " " + " ".join([zw] * k))
        inputs += [t for (l, t) in focus_texts(focus) if l in (None, lang) and not t.startswith("__apply__")]
        # builder states behind disagreeing `apply` requests: replay them as text (zeros, then digits are not
        # reconstructible in general) — at least the word after k zeros
        for (l, t) in focus_texts(focus):
            if l == lang and t.startswith("__apply__"):
                _, w, st = t.split(":", 2)
                stf = st.split("|")
                try:
                    inputs.append(" ".join([zw] * int(stf[1]) + [w]))
                except Exception:
                    pass
        for pref in ("", "L:"):
            for t in inputs:
                reqs.append("val\t%s%s\t%s" % (pref, lang, esc(t)))
                th = rng.choice(thrs)
                reqs.append("text\t%s%s\t%s\t%s" % (pref, lang, th, esc(t)))
                if len(t) < 3000:
                    reqs.append("occ\t%s%s\t%s\t%s" % (pref, lang, rng.choice(thrs), esc(t)))
                    toks = " ".join("%s,%s,%d,%d,%d" % (esc(w), esc(w.lower()), rng.below(8) == 0, 300 * i * (rng.below(3) == 0), 300 * i) for i, w in enumerate(t.split(" ")[:60]))
                    reqs.append("scan\t%s%s\t%s\t%s" % (pref, lang, rng.choice(thrs), toks))
    # very long token streams through batch search, the lazy iterator and the stream rewrite: tens of thousands of tokens
    # without a number, then one (recursion depth, quadratic buffers)
    for lc, filler, num in (("script", "w", "d5 d3"), ("en", "lorem", "twenty five"), ("de", "wort", "drei und zwanzig")):
        for count in (30000, 120000):
            ws = [filler] * count + num.split(" ")
            toks = " ".join("%s,%s,0,%d,%d" % (esc(w), esc(w), 10 * i, 10 * i + 10) for i, w in enumerate(ws))
            reqs.append("scan\t%s\t%s\t%s" % (lc, t2nlib.thr_bits(10.0), toks))
    for c in DEGENERATE[:30] + ["en", "pt", "xx"]:
        reqs.append("lookup\t" + esc(c))
    outs = run_impl(ctx, "c03", reqs)
    kinds = set()
    for r, o in zip(reqs, outs):
        n += 1
        kinds.add((r.split("\t")[0], o[:6]))
        if o == "PANIC" or o.startswith("PANIC"):
            failures.append(fail(unesc(r.split("\t")[-1])[:200], "PANIC", "returns a value", [r if len(r) < 4000 else r[:4000]], lang=r.split("\t")[1], what="panic"))
        if r.startswith("val\t") and not (o.startswith("OK:") or o.startswith("ERR:")):
            failures.append(fail(unesc(r.split("\t")[-1])[:200], o[:50], "Ok or Err", [r[:4000]], what="validate-result"))
    ctx.samples["c03"] = [{"request": reqs[5][:200], "answer": outs[5][:100]}]
    return {"evaluations": n, "distinct_nontrivial": len(kinds) + len(set(outs)), "failures": failures[:5000],
            "rule": "degenerate inputs (empty, whitespace, hyphens, apostrophes, combining marks, mixed scripts, 20k-word phrases, repeated vocabulary) x all entry points x thresholds incl. NaN/inf/-0/subnormal, concrete and facade"}


# ------------------------------------------------------------------------------------------------
# C06: occurrences are well-formed and self-consistent

MARK = {"en": ".", "script": "."}
ORD_MARKERS = {
    "en": ["ths", "th", "st", "nd", "rds", "rd"], "fr": ["èmes", "ème", "ers", "er", "ères", "ère"],
    "es": ["º", "ª", "ᵒˢ", "ᵃˢ", ".ᵉʳ"], "pt": ["º", "ª", "ᵒˢ", "ᵃˢ"], "it": ["º", "ª"], "de": ["."], "nl": ["e"],
    "script": ["th"],
}


def read_numeral(lang, text):
    """independent reader of an occurrence text: returns (value_bits, is_ordinal) or None if malformed"""
    mark = MARK.get(lang, ",")
    if lang == "es" and text.startswith("1/"):
        d = text[2:]
        if not re.fullmatch(r"[0-9]+", d):
            return None
        v = float(d)
        return (t2nlib.f64bits(1.0 / v if v != 0 else float("inf")), False)
    m = re.fullmatch(r"([0-9]+)(?:%s([0-9]+))?(.*)" % re.escape(mark), text, re.S)
    if not m:
        return None
    rest = m.group(3)
    if rest and rest not in ORD_MARKERS[lang]:
        return None
    if rest and m.group(2) is not None:
        return None          # a decimal never carries an ordinal marker
    num = m.group(1) + ("." + m.group(2) if m.group(2) is not None else "")
    return (t2nlib.f64bits(float(num)), bool(rest))


def check_occs(lang, occs, toks_text, skipped):
    """yield problems of an occurrence list; toks_text: token texts; skipped(i): token i is whitespace or '-'"""
    last_end = 0
    for (s, e, text, is_ord, vb) in occs:
        if not (0 <= s < e <= len(toks_text)):
            yield "span %d-%d outside the stream of %d tokens" % (s, e, len(toks_text))
            continue
        if s < last_end:
            yield "spans not increasing/disjoint at %d-%d" % (s, e)
        last_end = e
        if skipped(s) or skipped(e - 1):
            yield "span %d-%d does not begin and end on a word token" % (s, e)
        r = read_numeral(lang, text)
        if r is None:
            yield "text %r is not a well-formed numeral" % text
            continue
        if r[0] != vb:
            yield "value bits %s differ from the reading of %r (%s)" % (vb, text, r[0])
        if r[1] != is_ord:
            yield "is_ordinal=%s but text %r %s an ordinal marker" % (is_ord, text, "carries" if r[1] else "has no")


def _is_skipped_text(t):
    return t == "-" or is_ws_or_empty(t)


def oracle_c06(ctx, focus):
    failures, n, distinct = [], 0, set()
    reqs, meta = [], []
    for li, lang in enumerate(LANGS):
        rng = SplitMix64(ctx.seed * 211 + li)
        bank = phrase_bank(ctx, lang)
        b = streams.bank(lang)
        for _ in range(2500 if ctx.tier != "thorough" else 40000):
            if rng.chance(1, 2):
                t = sentence(rng, lang, bank, extra=[b["dec"], b["dec"], "o", "neuf"])
            else:
                t = streams.random_text(rng, lang, 1 + rng.below(8), phrases=bank)
            # ordinals followed by the decimal separator, conjunctions at the edges ...
            if rng.chance(1, 6):
                t = t + " " + b["dec"] + " " + rng.choice(bank)
            reqs.append("occ\t%s\t%s\t%s" % (lang, rng.choice(ALL_THR), esc(t)))
            meta.append((lang, t))
        # numbers far beyond 2^53 with non-zero digits all the way down ("exact digits kept even when the value exceeds
        # float precision"): a multiplier on every scale word of the language, then a dense lower part
        import vocab as _vocab
        words = [w for w in _vocab.source_literals(lang) if w and " " not in w]
        scales = [w for w in words if re.search(r"ill[i\u00f3o]|ilj|ilh|^bilh|^bili|liard", w)]
        dense = _spec_cases(ctx, "c06d" + lang, ["gen\tcard\t%s\t%d\t0" % (lang, x) for x in
                                                   (123401, 123407, 999999999999, 100000123403, 7000001, 90071992547, 123456789012)])
        mult = _spec_cases(ctx, "c06m" + lang, ["gen\tcard\t%s\t%d\t0" % (lang, x) for x in (9, 12, 90, 100, 900, 9007, 90000, 100000)])
        for (g1, m_, e1) in mult:
            for sc in scales:
                for (g2, d_, e2) in dense:
                    for joiner in (" ", ""):
                        t = unesc(m_) + joiner + sc + " " + unesc(d_)
                        reqs.append("occ\t%s\t%s\t%s" % (lang, THR0, esc(t)))
                        meta.append((lang, t))
        # float-reader torture: dictated fractions that are exact binary midpoints (2^-k * (1 + 2^-53), k + 53 decimals), just
        # above and just below them -- the value must be the correctly rounded reading of ALL the digits shown
        dig = {int(g.split("\t")[3]): ph for (g, ph, e_) in _spec_cases(ctx, "c06t" + lang, ["gen\tcard\t%s\t%d\t0" % (lang, d) for d in range(10)])}
        if len(dig) == 10:
            for k in ((1, 20, 64, 347, 348, 500, 1000) if ctx.tier != "thorough" else (1, 2, 5, 20, 52, 64, 200, 346, 347, 348, 349, 400, 500, 747, 1000, 1021)):
                mid = str(5 ** (k + 53) * (2 ** 53 + 1)).rjust(k + 53, "0")     # digits of 2^-k * (1 + 2^-53)
                for ip in (0, 1, 7):
                    for fr in [mid, mid + "1", mid[:-1] + "49", mid[:400], mid[:401]] + [mid[:z] for z in _srcmine.sizes(41, 1100) if z < len(mid)]:
                        t = dig[ip] + " " + b["dec"] + " " + " ".join(dig[int(c)] for c in fr)
                        reqs.append("occ\t%s\t%s\t%s" % (lang, THR0, esc(t)))
                        meta.append((lang, t))
    outs = run_impl(ctx, "c06", reqs)
    for r, o, (lang, t) in zip(reqs, outs, meta):
        n += 1
        occs, toks = parse_occ_answer(o)
        if occs is None:
            failures.append(fail(t, "PANIC", "returns", [r], lang=lang, what="panic"))
            continue
        tt = [x[0] for x in toks]
        for msg in check_occs(lang, occs, tt, lambda i: _is_skipped_text(tt[i])):
            failures.append(fail(t, msg, "well-formed, self-consistent occurrence", [r], lang=lang, what="occurrence"))
        for oc in occs:
            distinct.add((lang, oc[2]))
    # scan answers of the correspondence streams (hints, custom tokens), implementation side
    for key in list(ctx._cache.keys()):
        if not (key.startswith("scan_") or key == "script"):
            continue
        sreqs, simpl, _ = ctx._cache[key]
        for r, a in zip(sreqs, simpl):
            n += 1
            if a == "PANIC":
                failures.append(fail(r[:300], "PANIC", "returns", [r], what="panic"))
                continue
            f = r.split("\t")
            lang = f[1].split(":")[-1]
            toks = [unesc(x.split(",")[0]) for x in f[3].split(" ") if x]
            occs = []
            for x in a.split("|")[0].split(","):
                if x:
                    se, text, od, vb = x.split(":")
                    s, e = se.split("-")
                    occs.append((int(s), int(e), unesc(text), od == "1", vb))
            for msg in check_occs(lang, occs, toks, lambda i: _is_skipped_text(toks[i])):
                failures.append(fail(f[3][:300], msg, "well-formed, self-consistent occurrence", [r], lang=lang, what="occurrence"))
    ctx.samples["c06"] = [{"lang": meta[7][0], "text": meta[7][1], "answer": outs[7][:200]}]
    return {"evaluations": n, "distinct_nontrivial": len(distinct), "failures": failures[:5000],
            "rule": "every occurrence reported on random sentences (all thresholds) and on the token streams of the correspondence step, re-read by an independent numeral reader; distinct = distinct occurrence texts"}


# ------------------------------------------------------------------------------------------------
# C07: scanner and validator agree

GLUE = [" ", "-", "\u2010", "\u2011", "\u2013", "\u2014", "\u00b7", "/", "'", ",", "\u00ad", "\u200b", "_", "\u2027", "  ", "\t",
        "--", "---", "- -", ",,", "..", "''"]
GLUE += [c * k for c in _srcmine.special_chars() for k in (1, 2, 3) if c * k not in GLUE]


def oracle_c07(ctx, focus):
    import vocab
    failures, n, distinct = [], 0, set()
    for li, lang in enumerate(LANGS):
        rng = SplitMix64(ctx.seed * 307 + li)
        bank = phrase_bank(ctx, lang)
        numwords = [w for w in vocab.source_literals(lang) if w and " " not in w and not w.isdigit() and w.isalpha() and len(w) < 24]
        streams_ = []
        for _ in range(4000 if ctx.tier != "thorough" else 100000):
            k = 1 + rng.below(7)
            ws = []
            for _ in range(k):
                r = rng.below(10)
                if r < 5:
                    ws.append(rng.choice(numwords))
                elif r < 8:
                    ws.extend(rng.choice(bank).split(" "))
                else:
                    ws.append(rng.choice(streams.ORDINARY[lang]))
            if rng.chance(1, 4):
                w = rng.choice(numwords)
                ws += [w, w]          # repeated scale words etc.
            ws = [w.lower() for w in ws if w]
            if rng.chance(1, 3) and len(ws) > 1:
                # glue tokens between words: only whitespace and the ASCII hyphen are skipped by the scanner; any other
                # punctuation token (typeset hyphens, dashes, dots, invisible format characters) is a token of its own
                j = 1 + rng.below(len(ws) - 1)
                ws = ws[:j] + [rng.choice(GLUE)] + ws[j:]
            streams_.append(ws)
        # phase 1: scan each stream (threshold 0, no annotation: plain tokens), validate the whole phrase
        reqs = []
        hinted = []
        for ws in streams_:
            # a third of the streams carry pause hints (nt_separated) at random positions: the clauses about spans
            # and about words left spelled out must hold with hints too
            gaps = [1 if (rng.chance(1, 3) and j > 0) else 0 for j in range(len(ws))] if rng.chance(1, 3) else [0] * len(ws)
            hinted.append(any(gaps))
            t_, parts = 0, []
            for w, g in zip(ws, gaps):
                if g:
                    t_ += 200
                parts.append("%s,%s,0,%d,%d" % (esc(w), esc(w), t_, t_ + 10))
                t_ += 10
            reqs.append("scan\t%s\t%s\t%s" % (lang, THR0, " ".join(parts)))
            reqs.append("val\t%s\t%s" % (lang, esc(" ".join(ws))))
        outs = run_impl(ctx, "c07a" + lang, reqs)
        # phase 2: validate the words of every non-decimal span, and every unconverted word
        reqs2, meta2 = [], []
        mark = MARK.get(lang, ",")
        for i, ws in enumerate(streams_):
            sc, va = outs[2 * i], outs[2 * i + 1]
            n += 2
            if sc == "PANIC":
                failures.append(fail(" ".join(ws), "PANIC", "returns", [reqs[2 * i]], lang=lang, what="panic"))
                continue
            occs = []
            for x in sc.split("|")[0].split(","):
                if x:
                    se, text, od, vb = x.split(":")
                    s, e = se.split("-")
                    occs.append((int(s), int(e), unesc(text)))
            covered = set()
            for (s, e, text) in occs:
                covered |= set(range(s, e))
                num = text[2:] if text.startswith("1/") else text
                if mark in num.rstrip(".") and re.match(r"^[0-9]+%s[0-9]" % re.escape(mark), num):
                    continue          # decimal occurrence
                # words(span): the tokens of the span that the scanner does not skip (whitespace, lone ASCII hyphen)
                reqs2.append("val\t%s\t%s" % (lang, esc(" ".join(w_ for w_ in ws[s:e] if not _is_skipped_text(w_)))))
                meta2.append(("span", ws, (s, e, text), reqs[2 * i]))
            if va.startswith("OK:") and not hinted[i]:
                d = unesc(va[3:])
                if len(occs) != 1 or occs[0][2] != d:
                    failures.append(fail(" ".join(ws), "scanner: %s" % sc.split("|")[0], "one occurrence with text %s" % d,
                                         [reqs[2 * i], reqs[2 * i + 1]], lang=lang, what="valid-phrase-not-one-number"))
            for j, w in enumerate(ws):
                if j not in covered and not _is_skipped_text(w):
                    reqs2.append("val\t%s\t%s" % (lang, esc(w)))
                    meta2.append(("left", ws, j, reqs[2 * i]))
            distinct.add((lang, sc.split("|")[0]))
        outs2 = run_impl(ctx, "c07b" + lang, reqs2)
        for r, o, m in zip(reqs2, outs2, meta2):
            n += 1
            if m[0] == "span":
                _, ws, (s, e, text), r1 = m
                if o != "OK:" + esc(text):
                    failures.append(fail(" ".join(ws), "span %d-%d text %s but its words validate to %s" % (s, e, text, unesc(o)),
                                         "validate(words of the span) = Ok(%s)" % text, [r1, r], lang=lang, what="span-vs-validator"))
            else:
                _, ws, j, r1 = m
                if o.startswith("OK:"):
                    failures.append(fail(" ".join(ws), "word %r (#%d) validates to %s but lies in no occurrence" % (ws[j], j, unesc(o)),
                                         "every valid number word inside an occurrence at threshold 0", [r1, r], lang=lang, what="left-spelled"))
    ctx.samples["c07"] = [{"lang": "it", "stream": " ".join(streams_[3])}]
    return {"evaluations": n, "distinct_nontrivial": len(distinct), "failures": failures[:5000],
            "rule": "random word streams over each language's full vocabulary (repeated scale words, conjunctions anywhere): scanner spans re-validated, valid phrases re-scanned, unconverted words re-validated"}


# ------------------------------------------------------------------------------------------------
# C09: lone-number policy

def _f64(bits):
    import struct
    return struct.unpack("<d", struct.pack("<Q", int(bits, 16)))[0]


def oracle_c09(ctx, focus):
    failures, n, distinct = [], 0, set()
    chain = [float("-inf"), -1.0, 0.0, 0.5, 1.0, 5.0, 9.0, 10.0, 10.5, 1e9, 1e19, 1.8446744073709552e19, 1e30, float("inf")]
    thrs = [t2nlib.thr_bits(x) for x in chain] + [t2nlib.thr_bits(float("nan"))]
    for li, lang in enumerate(LANGS):
        rng = SplitMix64(ctx.seed * 409 + li)
        bank = phrase_bank(ctx, lang)
        small_bank = [p for p in bank if len(p.split(" ")) == 1] or bank
        link = [w for w in linking_words(lang)]
        ordw = [w for w in streams.ORDINARY[lang] if w not in ("un", "le", "du", "l'", "numéro", "s", "c", "eine")]
        texts = []
        for _ in range(700 if ctx.tier != "thorough" else 12000):
            k = 1 + rng.below(7)
            parts = []
            for i in range(k):
                r = rng.below(100)
                if r < 45:
                    w = rng.choice(small_bank)
                elif r < 60:
                    w = rng.choice(bank)
                elif r < 75:
                    w = rng.choice(ordw)
                elif r < 90 and link:
                    w = rng.choice(link)
                else:
                    w = rng.choice(ordw)
                if i:
                    parts.append(rng.choice([" ", " ", " ", ", ", ". ", "; ", " . ", ": ", "! ", ".", " - "]) if rng.chance(3, 4) else rng.choice(PUNCT))
                parts.append(w.upper() if rng.chance(1, 10) else w)
            texts.append("".join(parts))
        # huge numbers and ranks (multipliers stacked on scale words, cardinal and ordinal forms): isolated and in pairs —
        # an ordinal is small below ANY threshold above its rank, however large (2^63, 2^64, 10^30 …)
        import vocab as _vocab
        lits = [w for w in _vocab.source_literals(lang) if w and " " not in w]
        scales = [w for w in lits if re.search(r"ill[i\u00f3o]|ilj|ilh|^bilh|^bili|liard|thousand|tausend|duizend|^mil$|^mille$|^mila$", w)] or ["x"]
        mults = [p_ for p_ in small_bank[:4]] + [p_ for p_ in bank if 1 < len(p_.split(" ")) < 4][:3]
        for _ in range(60 if ctx.tier != "thorough" else 1500):
            ph = rng.choice(mults) + " " + " ".join(rng.choice(scales) for _ in range(1 + rng.below(3)))
            texts.append("%s %s %s" % (rng.choice(ordw), ph, rng.choice(ordw)))
            texts.append("%s %s, %s %s" % (rng.choice(ordw), ph, rng.choice(small_bank), rng.choice(ordw)))
        # two small numbers with EVERY separator of the pools between them (punctuation glued to punctuation, pads, dashes,
        # quotes, format characters ...): only a token that trims to exactly "." or a non-linking word isolates them
        for p_ in sorted(set(PUNCT + streams.SEPS)):
            a_, b_ = rng.choice(small_bank), rng.choice(small_bank)
            texts.append(a_ + p_ + b_)
            texts.append(rng.choice(ordw) + " " + a_ + p_ + b_ + " " + rng.choice(ordw))
        reqs = []
        for t in texts:
            for th in thrs:
                reqs.append("occ\t%s\t%s\t%s" % (lang, th, esc(t)))
        outs = run_impl(ctx, "c09" + lang, reqs)
        linkset = set(link)
        # "potential linking words": a word the interpreter answers `Incomplete` on an empty builder (the conjunctions `en`,
        # `und`, `e` ... standing alone) is skipped by the scanner like a linking word, never a breaker
        cand_ = sorted({w.lower() for t in texts for w in re.findall(r"[^\W\d_]+", t)})
        inc_ = run_impl(ctx, "c09i" + lang, ["apply\t%s\t%s\t|0|0|0|-" % (lang, esc(w)) for w in cand_])
        linkset |= {w for w, a in zip(cand_, inc_) if a.startswith("ERR:Incomplete")}
        for ti, t in enumerate(texts):
            res = [parse_occ_answer(outs[ti * len(thrs) + j]) for j in range(len(thrs))]
            n += len(thrs)
            rq = lambda j: reqs[ti * len(thrs) + j]
            if any(r[0] is None for r in res):
                failures.append(fail(t, "PANIC", "returns", [rq(0)], lang=lang, what="panic"))
                continue
            base_i = chain.index(0.0)
            base, toks = res[base_i]
            key = lambda o: (o[0], o[1], o[2], o[3], o[4])
            baseset = [key(o) for o in base]
            distinct.add((lang, tuple(baseset)))
            # thresholds <= 0 and NaN rewrite everything
            for j in (0, 1, len(thrs) - 1):
                if [key(o) for o in res[j][0]] != baseset:
                    failures.append(fail(t, "occ(%s) differs from occ(0)" % thrs[j], "threshold <= 0 or NaN rewrites everything", [rq(j), rq(base_i)], lang=lang, what="zero-all"))
            # adjacency among the recognised numbers
            def ignorable(tok):
                tx = tok[0]
                if _is_skipped_text(tx):
                    return True
                if all(not is_alphabetic(c) for c in tx) and tx.strip("".join(_WS_SET)) != ".":
                    return True
                return tx.lower() in linkset
            adj = [all(ignorable(toks[x]) for x in range(base[i][1], base[i + 1][0])) for i in range(len(base) - 1)]
            for j, thv in enumerate(chain):
                got = [key(o) for o in res[j][0]]
                if any(g not in baseset for g in got):
                    failures.append(fail(t, "occ(%s) not a subset of occ(0): %s" % (thv, got), str(baseset), [rq(j), rq(base_i)], lang=lang, what="recognition-depends-on-threshold"))
                    continue
                if j > 0 and any(g not in [key(o) for o in res[j - 1][0]] for g in got):
                    failures.append(fail(t, "occ(%s) not a subset of occ(%s)" % (thv, chain[j - 1]), "monotone", [rq(j), rq(j - 1)], lang=lang, what="monotone"))
                exp = []
                for i, o in enumerate(base):
                    val = _f64(o[4])
                    small = (len(o[2].encode("utf-8")) == 1 or o[3]) and (val < thv)
                    near = (i > 0 and adj[i - 1] and base[i - 1][3] == o[3]) or (i + 1 < len(base) and adj[i] and base[i + 1][3] == o[3])
                    if (not small) or near:
                        exp.append(key(o))
                if got != exp:
                    failures.append(fail(t, "threshold %s: kept %s" % (thv, [g[2] for g in got]), "kept %s (small & isolated numbers hidden, nothing else)" % [e[2] for e in exp],
                                         [rq(j), rq(base_i)], lang=lang, what="policy"))
        ctx.samples.setdefault("c09", []).append({"lang": lang, "text": texts[3]})
    return {"evaluations": n, "distinct_nontrivial": len(distinct), "failures": failures[:5000],
            "rule": "sentences of small/large cardinals, ordinals, decimals, breakers, linking words, periods vs commas, at the threshold chain (-inf,-1,0,0.5,1,5,9,10,10.5,1e9,inf,NaN); policy recomputed from occ(0)"}


# ------------------------------------------------------------------------------------------------
# C10: context independence

STRONG = {
    "en": ["the cat sleeps here", "we went home today", "nothing else happened there", "it's the dog's bowl"],
    "fr": ["nous sommes partis hier", "elle mange très vite", "rien ne change jamais", "voici l'appartement rouge",
           "devant l'immeuble gris clair", "c'est d'accord aujourd'hui"],
    "es": ["nosotros fuimos ayer tarde", "ella come muy rápido", "nada cambia nunca aquí"],
    "pt": ["fomos para casa ontem", "ela come muito depressa", "nada muda nunca aqui"],
    "it": ["siamo andati via ieri", "lei mangia molto veloce", "niente cambia mai qui", "ecco l'albero dell'amico"],
    "de": ["wir gingen gestern heim", "sie isst sehr schnell", "nichts ändert sich hier"],
    "nl": ["wij gingen gisteren weg", "zij eet heel snel", "niets verandert hier ooit"],
}


# (`un` is a number word, so it cannot be part of a separator of non-number words)
STRONG_FR_ARTICLE = ["je vois le chat noir", "elle sort du grand magasin", "nous aimons le vin", "il parle du vieux port"]


_FR_WORD = re.compile(r"[^\W_]+(?:['\u2019-][^\W_]+)*'?")


def _fr_neuf_article_in_separator(s, whole, ra, rb):
    """The one recorded French context dependence (known finding F-fr-neuf-across-full-stop), recognised exactly: the whole
    text differs from `ra + s + rb` only in that ONE `neuf` of B, rewritten `9` when B stands alone, stays in words, and an
    article `un`/`le`/`du`/`l'` of the SEPARATOR stands two or three words before that `neuf` (the look-behind of the
    annotation pass crosses the separator's full stop)."""
    if not whole.startswith(ra + s):
        return False
    rest = whole[len(ra + s):]
    nsep = len(_FR_WORD.findall(s))
    for m in re.finditer(r"(?i)(?<![^\W_])neuf(?![^\W_])", rest):
        if rest[:m.start()] + "9" + rest[m.end():] != rb:
            continue
        words = [w.lower() for w in _FR_WORD.findall(s + rest[:m.start()])]
        for back in (2, 3):
            k = len(words) - back
            if 0 <= k < nsep and words[k] in ("un", "le", "du", "l'"):
                return True
    return False


def oracle_c10(ctx, focus):
    failures, n, distinct = [], 0, set()
    thrs = [THR0, t2nlib.thr_bits(5.0), t2nlib.thr_bits(10.0), t2nlib.thr_bits(float("inf")), t2nlib.thr_bits(float("nan"))]
    for li, lang in enumerate(LANGS):
        rng = SplitMix64(ctx.seed * 503 + li)
        bank = phrase_bank(ctx, lang)
        small_bank = [p for p in bank if len(p.split(" ")) == 1] or bank
        extra = {"fr": ["neuf", "le", "du", "un", "cent neuf", "vingt neuf", "numéro neuf"], "en": ["o", "o eight", "thirty o"]}.get(lang, [])
        reqs, meta = [], []
        # words for freely built separators: the words of the fixed separators + affixed linking words, kept only if the
        # validator refuses them as numbers and they are not in the linking vocabulary themselves
        lw_ = [w for w in linking_words(lang) if w.isalpha()]
        aff = [w + "-" for w in lw_] + [w + "'" for w in lw_[:8]]
        av = run_impl(ctx, "c10v" + lang, ["val\t%s\t%s" % (lang, esc(w)) for w in aff])
        at = run_impl(ctx, "c10t" + lang, ["tok\t%s" % esc(w) for w in aff])      # one token each (a leading dash would be cut off)
        aff = [w for w, v, tk in zip(aff, av, at) if v.startswith("ERR") and "," not in tk and w not in linking_words(lang)]
        # + words of scripts without case (CJK, kana, Hangul, Hebrew, Arabic, Devanagari, Thai): letters all the same
        sep_pool = sorted({w for st in STRONG[lang] for w in st.split(" ")}) + aff + streams.CASELESS
        for _ in range(800 if ctx.tier != "thorough" else 15000):
            a = sentence(rng, lang, bank + small_bank, extra=extra)
            b = sentence(rng, lang, bank + small_bank, extra=extra)
            if rng.chance(1, 3):
                a = a + " " + rng.choice(small_bank)          # a held small number at the end of A
            if rng.chance(1, 3) and extra:
                b = rng.choice(extra) + " " + b
            if rng.chance(1, 3) and extra:
                a = a + " " + rng.choice(extra)
            if not a[-1].isalnum() or not b[0].isalnum():
                continue
            s = " " + rng.choice(STRONG[lang]) + ". "
            if rng.chance(1, 3):
                # other sentence enders; separator words drawn one by one, among them linking words that the tokenizer leaves
                # glued to a dash or an apostrophe (`uh-`, `-so`): not in the linking vocabulary, hence ordinary words
                s = " " + " ".join(rng.choice(sep_pool) for _ in range(3 + rng.below(2))) + rng.choice(["! ", "? ", "\u2026 ", "!? ", ". "])
            th = rng.choice(thrs)
            for t in (a + s + b, a, b):
                reqs.append("text\t%s\t%s\t%s" % (lang, th, esc(t)))
            meta.append((a, s, b))
        if lang == "fr":
            # separators that contain an article two or three words before their end: the property allows them (ordinary,
            # non-number, non-linking words); the `neuf` heuristic looks across the full stop (known finding)
            for _ in range(120 if ctx.tier != "thorough" else 2000):
                a = sentence(rng, lang, bank + small_bank, extra=extra)
                b = rng.choice(["neuf chats dorment", "neuf personnes attendent", "Neuf jours plus tard", "neuf"]) if rng.chance(2, 3) else sentence(rng, lang, bank + small_bank, extra=extra)
                if not a[-1].isalnum() or not b[0].isalnum():
                    continue
                s = " " + rng.choice(STRONG_FR_ARTICLE) + ". "
                th = rng.choice(thrs)
                for t in (a + s + b, a, b):
                    reqs.append("text\t%s\t%s\t%s" % (lang, th, esc(t)))
                meta.append((a, s, b))
            # structured family around the ambiguous `neuf` (new / nine): a determiner two or three words before it
            # makes the annotation pass probe its neighbours; A and B each carry one such context.
            ctxs = []
            for det in ("un", "le", "du", "l'", "Le", "ce"):
                for mid in ("", "bon", "très bon"):
                    for tens in ("vingt", "trente", "soixante", "cent", "mille", "", "quatre-vingt", "zéro", "premier", "deuxième", "zéro zéro"):
                        for tail in ("mai", "restera ouvert", "", "ans", "cent", "zéro", "premiers", "premières pièces", "mille", "virgule cinq"):
                            head = det if det.endswith("'") and not mid and not tens else det + " "
                            if det.endswith("'"):
                                head = det + ("ami " if (mid or tens) else "")
                            ctxs.append(" ".join(x for x in [(head + " ".join(y for y in [mid, tens] if y)).strip(), "neuf", tail] if x))
            for _ in range(2500 if ctx.tier != "thorough" else 40000):
                a, b = rng.choice(ctxs), rng.choice(ctxs)
                s = " " + rng.choice(STRONG[lang]) + ". "
                th = rng.choice(thrs)
                for t in (a + s + b, a, b):
                    reqs.append("text\t%s\t%s\t%s" % (lang, th, esc(t)))
                meta.append((a, s, b))
        outs = run_impl(ctx, "c10" + lang, reqs)
        for i, (a, s, b) in enumerate(meta):
            n += 3
            whole, ra, rb = (unesc(outs[3 * i + j]) for j in range(3))
            if whole != ra + s + rb:
                kind = "context"
                if lang == "fr" and _fr_neuf_article_in_separator(s, whole, ra, rb):
                    kind = "context-neuf-after-article"      # B's leading `neuf` read as the adjective because of an article in S
                failures.append(fail(a + s + b, whole, ra + s + rb, reqs[3 * i:3 * i + 3], lang=lang, what=kind))
            distinct.add((lang, ra, rb))
        # punctuation always keeps two numbers apart
        puncts = [", ", ". ", "; ", ": ", "! ", "? ", " / ", " (", ") ", "\" ", ",", ".", ";", "!", "?", " , ", " . ", "...", " … ", "/", "(", ": - ", ".-"]
        gl = []
        nums = [0, 1, 2, 5, 9, 10, 12, 20, 21, 30, 70, 80, 99, 100, 101, 1000, 2020] if ctx.tier != "thorough" else list(range(0, 130)) + [1000, 2020, 10 ** 6]
        for x in nums:
            gl.append("gen\tcard\t%s\t%d\t0" % (lang, x))
        cards = _spec_cases(ctx, "c10p" + lang, gl)
        preqs, pmeta = [], []
        # C10 is about context, not about the reading itself (that is C01): each side is compared with the
        # implementation's own rewriting of that side alone.
        alone = run_impl(ctx, "c10r" + lang, ["text\t%s\t%s\t%s" % (lang, THR0, esc(p1)) for (g1, p1, e1) in cards])
        alone = {p1: unesc(o) for (g1, p1, e1), o in zip(cards, alone)}
        for (g1, p1, e1) in cards:
            for (g2, p2, e2) in cards:
                if ctx.tier != "thorough" and not rng.chance(1, 3):
                    continue
                p = rng.choice(puncts)
                preqs.append("text\t%s\t%s\t%s" % (lang, THR0, esc(p1 + p + p2)))
                pmeta.append((p1 + p + p2, alone[p1] + p + alone[p2]))
        pouts = run_impl(ctx, "c10q" + lang, preqs)
        for r, o, (t, want) in zip(preqs, pouts, pmeta):
            n += 1
            if unesc(o) != want:
                failures.append(fail(t, unesc(o), want, [r], lang=lang, what="punctuation"))
        ctx.samples.setdefault("c10", []).append({"lang": lang, "A": meta[0][0], "S": meta[0][1], "B": meta[0][2]})
    return {"evaluations": n, "distinct_nontrivial": len(distinct), "failures": failures[:5000],
            "rule": "rewrite(A S B) = rewrite(A) S rewrite(B) for random A, B (held small numbers, neuf/o near the boundaries), S = 3-4 ordinary words + period, 5 thresholds; number-punctuation-number grid"}


# ------------------------------------------------------------------------------------------------
# C11: letter case never matters

# capital forms that are NOT what upper() produces but lowercase to an ordinary letter: capital sharp s, Kelvin sign,
# Angstrom sign, Ohm sign (their lowercase has another UTF-8 width than the letter itself)
ALT_CAPS = {"\u00df": "\u1e9e", "k": "\u212a", "\u00e5": "\u212b", "\u03c9": "\u2126"}


def _alt_upper(x):
    return "".join(ALT_CAPS.get(c, c.upper() if len(c.upper()) == 1 else c) for c in x)


def recasings(rng, s):
    out = []
    for f in (str.upper, str.capitalize, str.title, lambda x: "".join(c.upper() if rng.chance(1, 2) else c for c in x), _alt_upper,
              lambda x: "".join(ALT_CAPS.get(c, c) for c in x)):
        r = f(s)
        if r != s and r.lower() == s.lower() and len(r) == len(s):
            out.append(r)
    return out


def oracle_c11(ctx, focus):
    failures, n, distinct = [], 0, set()
    thrs = [THR0, t2nlib.thr_bits(5.0), t2nlib.thr_bits(10.0)]
    for li, lang in enumerate(LANGS):
        rng = SplitMix64(ctx.seed * 601 + li)
        bank = phrase_bank(ctx, lang)
        reqs, meta = [], []
        for _ in range(700 if ctx.tier != "thorough" else 12000):
            t = sentence(rng, lang, bank, extra=linking_words(lang) + ["o", "neuf"]).lower()
            if t.lower() != t:
                continue
            for r in recasings(rng, t):
                th = rng.choice(thrs)
                reqs += ["occ\t%s\t%s\t%s" % (lang, th, esc(t)), "occ\t%s\t%s\t%s" % (lang, th, esc(r)),
                         "val\t%s\t%s" % (lang, esc(t)), "val\t%s\t%s" % (lang, esc(r))]
                meta.append((t, r))
        # every linking expression of the language — also those of several words — between two small numbers, in every
        # casing (the `FIVE PLUS SIX` family, exhaustively over the vocabulary)
        import vocab as _vocab
        vp = os.path.join(t2nlib.REPO, "src", "lang", lang, "vocabulary.rs")
        link_all = sorted(set(_vocab.LIT.findall(open(vp, encoding="utf-8").read()))) if os.path.exists(vp) else []
        smalls = [p_ for p_ in bank if " " not in p_ and "-" not in p_][:6] or bank[:3]
        for lw in link_all:
            a_, b_ = rng.choice(smalls), rng.choice(smalls)
            t = ("%s %s %s" % (a_, lw, b_)).lower()
            for r in recasings(rng, t):
                for th in (t2nlib.thr_bits(10.0), t2nlib.thr_bits(100.0)):
                    reqs += ["occ\t%s\t%s\t%s" % (lang, th, esc(t)), "occ\t%s\t%s\t%s" % (lang, th, esc(r)),
                             "val\t%s\t%s" % (lang, esc(t)), "val\t%s\t%s" % (lang, esc(r))]
                    meta.append((t, r))
        # single tokens of hundreds / thousands of bytes that may still be numbers: a number word stretched by a run of one
        # ending letter (lemmatizers strip plural and inflection endings of any length), hyphen compounds and glued
        # compounds with the conjunction or a multiplier repeated; whatever the lowercase text gives, its recasings give too
        cjw = {"en": "and", "fr": "et", "es": "y", "pt": "e", "it": "e", "de": "und", "nl": "en"}[lang]
        singles = [p_ for p_ in bank if " " not in p_][:: max(1, len(bank) // 12)][:12] or bank[:3]
        for w_ in singles:
            for k_ in [120, 251, 300, 2000] + [max(1, z - len(w_.encode("utf-8"))) for z in _srcmine.sizes(41, 70000)]:
                cands = [w_ + c_ * k_ for c_ in "senaoi"]
                cands += [w_ + "-" + (cjw + "-") * (k_ // 4) + w_, w_ + cjw * (k_ // 3) + w_, (w_ + "-") * (k_ // 8) + w_, w_ * (k_ // 6)]
                for c_ in cands:
                    t = ("x " + c_ + " y").lower()
                    r = t.upper()
                    if r.lower() != t:
                        continue
                    th = rng.choice(thrs)
                    reqs += ["occ\t%s\t%s\t%s" % (lang, th, esc(t)), "occ\t%s\t%s\t%s" % (lang, th, esc(r)),
                             "val\t%s\t%s" % (lang, esc(c_.lower())), "val\t%s\t%s" % (lang, esc(c_.upper()))]
                    meta.append((t, r))
        # İ (U+0130) written where an I belongs inside a number word: `FİVE` and its lowercase `fi̇ve` are recasings of each
        # other; neither is a number word (same numbers on both sides; spans may shift: that part is the known finding)
        for ph in bank[:: max(1, len(bank) // 40)]:
            if "i" in ph:
                r = "x " + ph.upper().replace("I", "\u0130") + " y"
                t = r.lower()
                if r.upper().lower() == t:
                    th = rng.choice(thrs)
                    reqs += ["occ\t%s\t%s\t%s" % (lang, th, esc(t)), "occ\t%s\t%s\t%s" % (lang, th, esc(r)),
                             "val\t%s\t%s" % (lang, esc(t)), "val\t%s\t%s" % (lang, esc(r))]
                    meta.append((t, r))
        # letters whose lowercase has another UTF-8 length (or another number of chars) than the letter itself, in the
        # ordinary words around the numbers: the text and its lowercase must give the same occurrences
        exotic = ["\u0130zmir", "STRA\u1e9eE", "\u212a", "\u2126", "\u212b", "\u023a", "\u023e", "\u01c5", "GRO\u1e9e", "\u0130"]
        for _ in range(200 if ctx.tier != "thorough" else 3000):
            ws = sentence(rng, lang, bank, extra=linking_words(lang)).split(" ")
            for _k in range(1 + rng.below(2)):
                ws.insert(rng.below(len(ws) + 1), rng.choice(exotic))
            r = " ".join(ws)
            t = r.lower()
            if r.upper().lower() != t or t == r:
                continue
            th = rng.choice(thrs)
            reqs += ["occ\t%s\t%s\t%s" % (lang, th, esc(t)), "occ\t%s\t%s\t%s" % (lang, th, esc(r)),
                     "val\t%s\t%s" % (lang, esc(t)), "val\t%s\t%s" % (lang, esc(r))]
            meta.append((t, r))
        outs = run_impl(ctx, "c11" + lang, reqs)
        for i, (t, r) in enumerate(meta):
            n += 4
            if "PANIC" in (outs[4 * i], outs[4 * i + 1], outs[4 * i + 2], outs[4 * i + 3]):
                failures.append(fail(r, "PANIC", "same occurrences as for %r" % t, reqs[4 * i:4 * i + 4], lang=lang, what="case-panic"))
                continue
            o1, _ = parse_occ_answer(outs[4 * i])
            o2, tk2 = parse_occ_answer(outs[4 * i + 1])
            if o1 != o2:
                # U+0130 lowercases to two code points (i + combining dot), and the combining dot is not alphanumeric: the
                # lowercase text has two more tokens per such letter. Same numbers, shifted spans: a finding of its own kind.
                same_numbers = o1 is not None and o2 is not None and [o[2:] for o in o1] == [o[2:] for o in o2]
                kind = "case-span-dotted-I" if ("\u0130" in r and same_numbers) else "case"
                if kind == "case" and "\u0130" in r and o2 is not None and tk2 is not None:
                    # İ inside a would-be number word: the capitalised token (lowercase `…i̇…`) is no number word, while the
                    # lowercase text is cut at the combining dot and its pieces may be. Same root cause as the span finding —
                    # as long as NO occurrence of the capitalised text covers a token containing İ.
                    dotted = [j for j, x in enumerate(tk2) if "\u0130" in x[0]]
                    if all(not (o[0] <= j < o[1]) for o in o2 for j in dotted):
                        kind = "case-dotted-I-word"
                failures.append(fail(r, "occurrences %s" % [(o[0], o[1], o[2]) for o in (o2 or [])], "as for %r: %s" % (t, [(o[0], o[1], o[2]) for o in (o1 or [])]),
                                     reqs[4 * i:4 * i + 2], lang=lang, what=kind))
            if outs[4 * i + 2] != outs[4 * i + 3]:
                failures.append(fail(r, "validate -> " + unesc(outs[4 * i + 3]), unesc(outs[4 * i + 2]), reqs[4 * i + 2:4 * i + 4], lang=lang, what="case-validate"))
            distinct.add((lang, t))
        ctx.samples.setdefault("c11", []).append({"lang": lang, "lower": meta[1][0], "recased": meta[1][1]})
    return {"evaluations": n, "distinct_nontrivial": len(distinct), "failures": failures[:5000],
            "rule": "sentences (numbers, linking words, breakers) in lower / UPPER / Capitalised / Title / rAnDoM case with reversible case mapping, thresholds 0/5/10; occurrences and validation compared"}


# ------------------------------------------------------------------------------------------------
# C13: facade = concrete interpreter; ISO lookup

def stretched_tokens(lang, bank, zs, nwords=5):
    """single tokens of (about) z bytes that may still be numbers: a number word stretched by a run of one ending letter,
    hyphen / glued compounds with the conjunction or the word itself repeated. zs: sizes (srcmine.sizes + fixed ones)."""
    cjw = {"en": "and", "fr": "et", "es": "y", "pt": "e", "it": "e", "de": "und", "nl": "en"}[lang]
    singles = [p_ for p_ in bank if " " not in p_][:: max(1, len(bank) // nwords)][:nwords] or bank[:2]
    out = []
    for w_ in singles:
        lw = len(w_.encode("utf-8"))
        for z in zs:
            k = max(1, z - lw)
            out += [w_ + c_ * k for c_ in "sen"]
            out += [w_ + ("-" + cjw) * max(1, (z - 2 * lw - 1) // (len(cjw) + 1)) + "-" + w_,
                    w_ + cjw * max(1, (z - 2 * lw) // len(cjw)) + w_,
                    (w_ + "-") * max(1, z // (lw + 1)) + w_]
    return out


def oracle_c13(ctx, focus):
    failures, n, distinct = [], 0, set()
    for li, lang in enumerate(LANGS):
        rng = SplitMix64(ctx.seed * 701 + li)
        bank = phrase_bank(ctx, lang)
        base = []
        import vocab
        words = [w for w in vocab.source_literals(lang) if w and " " not in w and not w.isdigit()]
        # + the same words as a caller's tokens might carry them (padded, stray invisible characters, other case forms)
        odd = [f(w) for w in words[:: max(1, len(words) // 25)] if w.isalpha()
               for f in (lambda x: " " + x, lambda x: x + " ", lambda x: "\t" + x, lambda x: x + "\u00a0", lambda x: "\u200b" + x,
                         lambda x: x.upper(), lambda x: x.capitalize())]
        states = vocab.states_for(lang, "quick")
        for _ in range(1500 if ctx.tier != "thorough" else 30000):
            w = rng.choice(words) if rng.chance(3, 4) else rng.choice(bank).split(" ")[0]
            if rng.chance(1, 5):
                w = rng.choice(odd)
            st = rng.choice(states)
            base.append("apply\t%s\t%s\t%s" % ("{L}", esc(w), st))
            base.append("applydec\t%s\t%s\t%s" % ("{L}", esc(w), st))
            base.append("morph\t{L}\t%s" % esc(w))
            base.append("sep\t{L}\t%s" % esc(w))
            base.append("link\t{L}\t%s" % esc(w))
            if not st.startswith("|0|"):
                base.append("fmt\t{L}\t%s" % st)
                base.append("fmtdec\t{L}\t%s\t%s" % (st, rng.choice(states)))
        for _ in range(600 if ctx.tier != "thorough" else 10000):
            t = sentence(rng, lang, bank, extra=["o", "neuf", "le", "un"])
            th = rng.choice(ALL_THR)
            base.append("text\t{L}\t%s\t%s" % (th, esc(t)))
            base.append("occ\t{L}\t%s\t%s" % (th, esc(t)))
            base.append("val\t{L}\t%s" % esc(t))
            pad = (lambda x: (" " + x) if rng.chance(1, 8) else x)
            toks = " ".join("%s,%s,%d,%d,%d" % (esc(pad(w)), esc(pad(w).lower()), rng.below(10) == 0, 0, 0) for w in t.split(" "))
            base.append("scan\t{L}\t%s\t%s" % (th, toks))
            base.append("annot\t{L}\t%s" % toks)
        # single tokens whose size is a number mined from the source (srcmine.py) and that may still be numbers
        for tok_ in stretched_tokens(lang, bank, [300, 2000] + _srcmine.sizes(41, 70000), nwords=3):
            base.append("apply\t{L}\t%s\t|0|0|0|-" % esc(tok_))
            base.append("val\t{L}\t%s" % esc(tok_))
            base.append("text\t{L}\t%s\t%s" % (THR0, esc("x " + tok_ + " y")))
        reqs = []
        for b in base:
            reqs += [b.replace("{L}", lang), b.replace("{L}", "L:" + lang), b.replace("{L}", "G:" + lang)]
        outs = run_impl(ctx, "c13" + lang, reqs)
        for i, b in enumerate(base):
            n += 3
            c, f, g = outs[3 * i], outs[3 * i + 1], outs[3 * i + 2]
            if f != c:
                failures.append(fail(b, "facade: " + f[:200], "concrete: " + c[:200], reqs[3 * i:3 * i + 2], lang=lang, what="delegation"))
            if g != c:
                failures.append(fail(b, "via get_interpreter_for: " + g[:200], "concrete: " + c[:200], [reqs[3 * i], reqs[3 * i + 2]], lang=lang, what="lookup-delegation"))
            distinct.add(c)
    # lookup table
    lreqs, limpl, _ = ctx._cache.get("lookup", ([], [], []))
    for r, a in zip(lreqs, limpl):
        n += 1
        code = unesc(r.split("\t")[1])
        want = "some:" + code if code in LANGS else "none"
        if a != want:
            failures.append(fail(code, a, want, [r], what="iso-lookup"))
    ctx.samples["c13"] = [{"request": "apply via en / L:en / G:en", "note": "every trait method and API function through the three paths"}]
    return {"evaluations": n, "distinct_nontrivial": len(distinct), "failures": failures[:5000],
            "rule": "every trait method (apply, apply_decimal, get_morph_marker, is_decimal_sep, is_linking, format_and_value, format_decimal_and_value, basic_annotate) and API function through X::new(), Language::X and get_interpreter_for; lookup over all strings of length<=2 on [a-z] + case variants + junk"}


# ------------------------------------------------------------------------------------------------
# C14: stateless, pure, shareable; no output on the standard streams

def small_first(bank):
    """a short multiplier phrase from the bank (e.g. `ten`, `twelve`)"""
    for p_ in bank:
        if " " not in p_ and "-" not in p_ and len(p_) > 2:
            return p_
    return bank[0]


def oracle_c14(ctx, focus):
    import subprocess, glob
    failures, n = [], 0
    # the call mix: a slice of every stream (compounds for the de/it/nl splitter, texts for both annotators)
    lines = []
    rng = SplitMix64(ctx.seed * 809)
    import io
    for lang in LANGS:
        buf = io.StringIO()
        streams.s_text(lang, "quick", ctx.seed, buf, phrases=phrase_bank(ctx, lang))
        streams.s_val(lang, "quick", ctx.seed, buf, phrases=phrase_bank(ctx, lang))
        streams.s_scan(lang, "quick", ctx.seed, buf, phrases=phrase_bank(ctx, lang))
        ls = buf.getvalue().split("\n")
        ls = [l for l in ls if l]
        step = max(1, len(ls) // (400 if ctx.tier != "thorough" else 4000))
        lines += ls[::step]
        lines += [l.replace("\t%s\t" % lang, "\tL:%s\t" % lang, 1) for l in ls[::step * 3]]
        bank = phrase_bank(ctx, lang)
        for ph in bank[:: max(1, len(bank) // 60)]:
            for w in ph.split(" "):
                lines.append("apply\t%s\t%s\t|0|0|0|-" % (lang, esc(w)))
        # the longest spellings as ordinals in every inflection, each several times in the mix: anything memoised per
        # interpreter under too coarse a key shows up as history dependence
        # huge numbers (stacked multipliers) with a decimal part, as ordinals, next to zeros: rare value ranges
        lits_ = [w for w in __import__("vocab").source_literals(lang) if w and " " not in w]
        sc_ = [w for w in lits_ if re.search(r"ill[i\u00f3o]|ilj|ilh|^bilh|^bili|liard", w)][:8]
        one_ = bank[1] if len(bank) > 1 else bank[0]
        for a_ in sc_:
            for b_ in sc_[:3]:
                ph_ = "%s %s %s %s %s" % (small_first(bank), a_, b_, streams.DECSEP[lang].lower(), one_)
                lines.append("text\t%s\t%s\t%s" % (lang, THR0, esc(ph_)))
        ordmax, ninfl = ORD_SPEC[lang]
        lo = ["gen\tord\t%s\t%d\t0\t%d" % (lang, r, i) for r in long_numbers(ctx, lang, limit=ordmax + 1)[:12] for i in range(ninfl)]
        for (g, ph, e) in _spec_cases(ctx, "c14o" + lang, lo):
            for _k in range(2):
                lines.append("val\t%s\t%s" % (lang, esc(ph)))
                lines.append("text\t%s\t%s\t%s" % (lang, THR0, esc("x " + ph + " y")))
    reqp = ctx.path("c14.req")
    with open(reqp, "w", encoding="utf-8") as f:
        for l in lines:
            f.write(l + "\n")
    rounds = 2 if ctx.tier != "thorough" else 12
    for sd in (ctx.seed, ctx.seed + 1, ctx.seed + 2):
        r = subprocess.run([t2nlib.HARNESS_BIN, "threads", reqp, "16", str(rounds), str(sd)], capture_output=True, text=True)
        out = r.stdout.split("\n")
        m = re.match(r"calls=(\d+) mismatches=(\d+)", out[0] if out else "")
        if r.returncode != 0 or not m:
            failures.append(fail("threads run", "harness rc=%d %s" % (r.returncode, r.stderr[-300:]), "runs", [], what="threads-crash"))
            continue
        n += int(m.group(1))
        for l in out[1:]:
            if l.startswith("MISMATCH"):
                _, rq, got, exp = (l.split("\\t") + ["", "", ""])[:4]
                failures.append(fail(rq, "shared interpreter / other history: " + got[:200], "fresh interpreter: " + exp[:200], [rq], what="history-dependence"))
    # silence of the standard streams
    r = subprocess.run([t2nlib.HARNESS_BIN, "quiet", reqp], capture_output=True)
    n += len(lines)
    if r.stdout or r.stderr:
        # find one request that produces output (bisect by halves)
        lo, hi = 0, len(lines)
        cur = lines
        while len(cur) > 1:
            half = cur[:len(cur) // 2]
            hp = ctx.path("c14h.req")
            open(hp, "w", encoding="utf-8").write("\n".join(half) + "\n")
            rr = subprocess.run([t2nlib.HARNESS_BIN, "quiet", hp], capture_output=True)
            cur = half if (rr.stdout or rr.stderr) else cur[len(cur) // 2:]
        failures.append(fail(cur[0], "stdout=%r stderr=%r" % (r.stdout[:200], r.stderr[:300]), "no output on the standard streams", [cur[0]], what="stdio"))
    # static facts reported in the evidence (not a Lean result): unsafe / interior mutability / print macros in non-test code
    suspects = []
    for p in glob.glob(os.path.join(t2nlib.REPO, "src", "**", "*.rs"), recursive=True):
        src = open(p, encoding="utf-8").read()
        code = src.split("#[cfg(test)]")[0]
        code = re.sub(r"/\*.*?\*/", lambda m: "\n" * m.group(0).count("\n"), code, flags=re.S)   # block (doc) comments
        for ln, line in enumerate(code.split("\n"), 1):
            st = line.strip()
            if st.startswith("//"):
                continue
            if re.search(r"\b(dbg!|println!|eprintln!|print!|eprint!)|io::stdout|io::stderr", st):
                suspects.append("%s:%d: %s" % (os.path.relpath(p, t2nlib.REPO), ln, st[:100]))
            if re.search(r"\bunsafe\b|static mut|RefCell|\bCell<|Mutex|RwLock|Atomic[A-Z]|thread_local!|lazy_static|OnceCell|OnceLock", st):
                suspects.append("%s:%d: %s" % (os.path.relpath(p, t2nlib.REPO), ln, st[:100]))
            # code conditional on the verification cfg (other than the hook module itself) or on the build profile: the
            # library a user compiles would not be the library the harness exercises
            if re.search(r"text2num_verif|debug_assertions|cfg!\(|cfg\(\s*(not|any|all|feature|target|panic|overflow)", st) \
                    and not re.fullmatch(r"#\[cfg\(text2num_verif\)\]", st):
                suspects.append("%s:%d: %s" % (os.path.relpath(p, t2nlib.REPO), ln, st[:100]))
            # ambient inputs: anything that lets a result depend on something other than the arguments (clock, environment,
            # files, network, process, thread identity, randomised hashing, addresses)
            if re.search(r"std::time|\bInstant\b|SystemTime|std::env|env::var|std::fs|\bFile::|std::net|std::process|thread::|RandomState|"
                         r"DefaultHasher|\brand::|getrandom|as \*const|as \*mut|as_ptr\(\)|available_parallelism|std::io|Location::caller|[Bb]acktrace", st):
                suspects.append("%s:%d: %s" % (os.path.relpath(p, t2nlib.REPO), ln, st[:100]))
    ctx.samples["c14"] = [{"threads": 16, "requests": len(lines), "rounds": rounds, "static_suspects": suspects[:10]}]
    res = {"evaluations": n, "distinct_nontrivial": len(set(lines)), "failures": failures[:5000], "static_suspects": suspects,
           "rule": "one shared set of interpreters (and Language values) constructed in a seed-dependent order, 16 threads x seeded random calls drawn from text/val/scan/apply streams of all 7 languages, each answer compared with the answer of a fresh interpreter created first on a fresh thread (minimal history); fd1/fd2 of a child running the call mix must stay empty; Send+Sync asserted at compile time"}
    if suspects and not failures:
        res["tie_broken"] = "print / unsafe / interior-mutability / ambient-input (clock, env, fs, thread, hasher, address) site in non-test code: " + "; ".join(suspects[:3])
    return res


# ------------------------------------------------------------------------------------------------
# C15: lazy iterator = batch; hints

def _parse_scan(req, ans):
    f = req.split("\t")
    toks = []
    for x in f[3].split(" "):
        if x:
            p = x.split(",")
            toks.append(dict(text=unesc(p[0]), lower=unesc(p[1]) if len(p) > 1 else "", nan=(len(p) > 2 and p[2] == "1"),
                             start=int(p[3]) if len(p) > 3 else 0, end=int(p[4]) if len(p) > 4 else 0))
    parts = ans.split("|")
    occs = [x for x in parts[0].split(",") if x]
    trace = [x for x in parts[1].split(",") if x]
    return f[1], f[2], toks, occs, trace


def _span(o):
    s, e = o.split(":")[0].split("-")
    return int(s), int(e)


def oracle_c15(ctx, focus):
    failures, n, distinct = [], 0, set()
    pool = []
    for key in list(ctx._cache.keys()):
        if key.startswith("scan_") or key == "script":
            sreqs, simpl, _ = ctx._cache[key]
            keep = [k for k, r in enumerate(sreqs) if not r.startswith("scanp\t")]   # default-hint twins: different answer format
            pool.append(([sreqs[k] for k in keep], [simpl[k] for k in keep]))
            # the twins: a token type with the trait's default hint methods = the same stream with every hint cleared
            for k, r in enumerate(sreqs):
                if r.startswith("scanp\t") and simpl[k] != "PANIC":
                    batch, lazy = simpl[k].split("|")[0], simpl[k].split("|")[1]
                    if batch != lazy:
                        failures.append(fail(r.split("\t")[3][:300], "iterator yields %s" % lazy, "batch %s" % batch, [r], what="iter-vs-batch-default-hints"))
    # all recognised numbers (threshold-independent): re-run the same token streams at threshold 0
    extra_reqs, owner = [], []
    for pi, (sreqs, simpl) in enumerate(pool):
        for i, r in enumerate(sreqs):
            f = r.split("\t")
            extra_reqs.append("\t".join([f[0], f[1], THR0, f[3]]))
            owner.append((pi, i))
    zero = run_impl(ctx, "c15z", extra_reqs)
    zmap = {owner[k]: zero[k] for k in range(len(owner))}
    comma_reqs, comma_meta = [], []
    for pi, (sreqs, simpl) in enumerate(pool):
        for i, (r, a) in enumerate(zip(sreqs, simpl)):
            n += 1
            if a == "PANIC":
                failures.append(fail(r[:300], "PANIC", "returns", [r], what="panic"))
                continue
            lang, thr, toks, occs, trace = _parse_scan(r, a)
            distinct.add(a.split("|")[0])
            # lazy = batch, then ends
            if not trace or trace[0] != "@0":
                failures.append(fail(r.split("\t")[3][:300], "consumed before first request: %s" % trace[:1], "@0", [r], what="eager"))
            items = [t for t in trace[1:] if not t.startswith("N@")]
            tail_ = trace[1 + len(items):]
            if [t.rsplit("@", 1)[0] for t in items] != occs:
                failures.append(fail(r.split("\t")[3][:300], "iterator yields %s" % [t.rsplit("@", 1)[0] for t in items], "batch %s" % occs, [r], what="iter-vs-batch"))
                continue
            if len(tail_) < 3 or any(not t.startswith("N@") for t in tail_):
                failures.append(fail(r.split("\t")[3][:300], "after the last item: %s" % tail_, "None, None, None", [r], what="iter-end"))
            # bounded look-ahead: never beyond the second recognised number after the one returned
            allocc = [x for x in zmap[(pi, i)].split("|")[0].split(",") if x] if zmap[(pi, i)] != "PANIC" else []
            starts = sorted(_span(o)[0] for o in allocc)
            for t in items:
                o, c = t.rsplit("@", 1)
                s, e = _span(o)
                later = [x for x in starts if x >= e]
                bound = later[1] + 1 if len(later) >= 2 else len(toks)
                if int(c) > bound:
                    failures.append(fail(r.split("\t")[3][:300], "returned %s after consuming %s tokens" % (o, c), "at most %d (second number after it starts at %s)" % (bound, later[1] if len(later) >= 2 else "-"), [r], what="look-ahead"))
            # hints
            # a token that declares itself not a number part is never skipped (it ends the number even if it is
            # whitespace or a lone hyphen) and is never inside an occurrence — no exception
            nonskipped = [j for j, tk in enumerate(toks) if tk["nan"] or not _is_skipped_text(tk["text"])]
            for (s, e) in map(_span, occs):
                for j in range(s, e):
                    if toks[j]["nan"]:
                        failures.append(fail(r.split("\t")[3][:300], "token %d (not a number part) inside occurrence %d-%d" % (j, s, e), "outside every occurrence", [r], what="nan-hint"))
            prev = None
            sep_positions = []
            for j in nonskipped:
                if prev is not None and toks[j]["start"] > toks[prev]["end"] + 100:
                    sep_positions.append((prev, j))
                prev = j
            for (p_, j) in sep_positions:
                for (s, e) in map(_span, occs):
                    if s <= p_ and j < e:
                        failures.append(fail(r.split("\t")[3][:300], "separated tokens %d and %d in the same occurrence %d-%d" % (p_, j, s, e), "never joined", [r], what="separation-hint"))
            # comma equivalence: clear the hints and insert a comma token before each separated token
            # (also for streams WITHOUT any separated pair whose timings are not the neutral ones: they must behave like the
            # same stream with neutral timings — a hint that no token gave must not appear)
            slow = any(tk["end"] - tk["start"] != 10 for tk in toks)
            if (sep_positions or slow) and len(comma_reqs) < (30000 if ctx.tier != "thorough" else 200000):
                cut = {j for (_, j) in sep_positions}
                new, remap, t_ = [], {}, 0
                for j, tk in enumerate(toks):
                    if j in cut:
                        new.append("%s,%s,0,%d,%d" % (esc(","), esc(","), t_, t_ + 10))
                        t_ += 10
                    remap[j] = len(new)
                    new.append("%s,%s,%d,%d,%d" % (esc(tk["text"]), esc(tk["lower"]), 1 if tk["nan"] else 0, t_, t_ + 10))
                    t_ += 10
                comma_reqs.append("scan\t%s\t%s\t%s" % (lang, thr, " ".join(new)))
                comma_meta.append((r, occs, remap))
    couts = run_impl(ctx, "c15c", comma_reqs)
    for cr, co, (r, occs, remap) in zip(comma_reqs, couts, comma_meta):
        n += 1
        if co == "PANIC":
            continue
        got = [x for x in co.split("|")[0].split(",") if x]
        want = []
        for o in occs:
            s, e = _span(o)
            want.append("%d-%d:%s" % (remap[s], remap[e - 1] + 1, o.split(":", 1)[1]))
        if got != want:
            failures.append(fail(r.split("\t")[3][:300], "with a comma spoken instead of the hint: %s" % got, "same occurrences %s" % want, [r, cr], what="hint-is-comma"))
    ctx.samples["c15"] = [{"request": pool[0][0][len(pool[0][0]) // 2][:200], "answer": pool[0][1][len(pool[0][0]) // 2][:300]}] if pool else []
    return {"evaluations": n, "distinct_nontrivial": len(distinct), "failures": failures[:5000],
            "rule": "every token stream of the correspondence step (scripted language: exhaustive short streams with nan/separation hints at every position; concrete languages: random): iterator trace vs batch, consumption counter vs spans, hints vs spans, comma-insertion metamorphic"}


# ------------------------------------------------------------------------------------------------
# C17: whitespace kind and amount never matter

WS_CHARS = ["\t", "\n", "\x0b", "\x0c", "\r", " ", "\x85", " ", " ", " ", " ", " ", " ", " ",
            " ", " ", " ", " ", " ", " ", " ", " ", " ", " ", "　"]


def ws_substitute(rng, s):
    out, i = [], 0
    # amounts: mostly 1-3 mixed characters; in some texts EVERY run is the same medium-sized run (4..40, plain blanks most of
    # the time: punctuation then sits between two equal pads), in some each run has its own length 1..64; rarely hundreds
    mode = rng.below(20)
    uni = (" " if rng.chance(3, 4) else rng.choice(WS_CHARS)) * (4 + rng.below(37))
    while i < len(s):
        if s[i] in _WS_SET:
            j = i
            while j < len(s) and s[j] in _WS_SET:
                j += 1
            if rng.chance(1, 40):
                # a very long run (hundreds of characters / bytes): the amount of whitespace must not matter either
                c = rng.choice(WS_CHARS)
                out.append(c * rng.choice([257, 300, 129, 86, 1000] + _srcmine.sizes(41, 5000)))
            elif mode < 3:
                out.append(uni)
            elif mode < 6:
                out.append((" " if rng.chance(1, 2) else rng.choice(WS_CHARS)) * (1 + rng.below(64)))
            else:
                out.append("".join(rng.choice(WS_CHARS) for _ in range(1 + rng.below(3))))
            i = j
        else:
            out.append(s[i])
            i += 1
    t = "".join(out)
    if rng.chance(1, 3):
        t = rng.choice(WS_CHARS) + t
    if rng.chance(1, 3):
        t = t + rng.choice(WS_CHARS)
    return t


def oracle_c17(ctx, focus):
    failures, n, distinct = [], 0, set()
    thrs = [THR0, t2nlib.thr_bits(5.0), t2nlib.thr_bits(10.0), t2nlib.thr_bits(float("inf"))]
    for li, lang in enumerate(LANGS):
        rng = SplitMix64(ctx.seed * 907 + li)
        bank = phrase_bank(ctx, lang)
        reqs, meta = [], []
        for _ in range(900 if ctx.tier != "thorough" else 15000):
            t = sentence(rng, lang, bank, extra=["o", "neuf", "le", "un", "."] + linking_words(lang)[:6])
            t = _WS_RE.sub(" ", t).strip(" ")
            if not t:
                continue
            w = ws_substitute(rng, t)
            th = rng.choice(thrs)
            reqs += ["occ\t%s\t%s\t%s" % (lang, th, esc(t)), "occ\t%s\t%s\t%s" % (lang, th, esc(w)),
                     "val\t%s\t%s" % (lang, esc(t)), "val\t%s\t%s" % (lang, esc(w)),
                     "text\t%s\t%s\t%s" % (lang, th, esc(w))]
            meta.append((t, w))
        # punctuation between two numbers with a pad of every size from 1 to 40 blanks on both sides (the amount of blanks
        # around a separator must not matter at ANY size, not only tiny and huge ones)
        singles_ = [p_ for p_ in bank if " " not in p_][:40] or bank[:5]
        for pch in (".", ",", ";", "-", "/", "!", "(", "\u2026"):
            for pad_n in list(range(1, 41)) + _srcmine.sizes(41, 2000):
                for blank in (" ", "\u00a0") if pad_n % 4 == 0 else (" ",):
                    a_, b_ = rng.choice(bank), rng.choice(singles_)
                    t = a_ + " " + pch + " " + b_
                    w = a_ + blank * pad_n + pch + blank * pad_n + b_
                    th = rng.choice(thrs)
                    reqs += ["occ\t%s\t%s\t%s" % (lang, th, esc(t)), "occ\t%s\t%s\t%s" % (lang, th, esc(w)),
                             "val\t%s\t%s" % (lang, esc(t)), "val\t%s\t%s" % (lang, esc(w)),
                             "text\t%s\t%s\t%s" % (lang, th, esc(w))]
                    meta.append((t, w))
        # blanks INSIDE a separator token (punctuation, blank, punctuation: `" .`, `) .`, `. "`): the kind and amount of that
        # blank must not matter either
        smalls_ = [p_ for p_ in bank if " " not in p_][:30] or bank[:5]
        for p1 in ('"', ")", "]", "!", ",", "\u00bb", "\u201d", "-", "("):
            for p2 in (".", ",", "!"):
                for (x1, x2) in ((p1, p2), (p2, p1)):
                    for blank in ("\t", "\u00a0", "\u2009", "  ", "\n", " \u00a0", "\u3000"):
                        a_, b_ = rng.choice(smalls_), rng.choice(smalls_)
                        for (l_, r_) in ((" ", " "), ("", " ")):
                            t = a_ + l_ + x1 + " " + x2 + r_ + b_
                            w = a_ + (blank if l_ else "") + x1 + blank + x2 + (blank if r_ else "") + b_
                            th = rng.choice(thrs)
                            reqs += ["occ\t%s\t%s\t%s" % (lang, th, esc(t)), "occ\t%s\t%s\t%s" % (lang, th, esc(w)),
                                     "val\t%s\t%s" % (lang, esc(t)), "val\t%s\t%s" % (lang, esc(w)),
                                     "text\t%s\t%s\t%s" % (lang, th, esc(w))]
                            meta.append((t, w))
        # a blank run of every mined size (srcmine.py) INSIDE a spelled number, between two numbers and at the edges
        multi_ = [p_ for p_ in bank if " " in p_][:: max(1, len(bank) // 6)][:6] or bank[:2]
        for z in _srcmine.sizes(41, 70000):
            for ph in multi_[: (6 if z < 5000 else 2)]:
                for blank in (" ", "\u00a0", "\n"):
                    t = "x " + ph + " y"
                    k_ = ph.index(" ") if " " in ph else 0
                    for w in ("x " + ph[:k_] + blank * z + ph[k_ + 1:] + " y" if " " in ph else None, "x" + blank * z + ph + blank * z + "y"):
                        if w is None:
                            continue
                        th = rng.choice(thrs)
                        reqs += ["occ\t%s\t%s\t%s" % (lang, th, esc(t)), "occ\t%s\t%s\t%s" % (lang, th, esc(w)),
                                 "val\t%s\t%s" % (lang, esc(t)), "val\t%s\t%s" % (lang, esc(w)),
                                 "text\t%s\t%s\t%s" % (lang, th, esc(w))]
                        meta.append((t, w))
        outs = run_impl(ctx, "c17" + lang, reqs)
        for i, (t, w) in enumerate(meta):
            n += 5
            o1, tk1 = parse_occ_answer(outs[5 * i])
            o2, tk2 = parse_occ_answer(outs[5 * i + 1])
            if o1 is None or o2 is None:
                failures.append(fail(w, "PANIC", "returns", reqs[5 * i:5 * i + 2], lang=lang, what="panic"))
                continue
            a = [(o[2], o[3], o[4]) for o in o1]
            b = [(o[2], o[3], o[4]) for o in o2]
            if a != b:
                failures.append(fail(w, "occurrences %s" % [x[0] for x in b], "as with single spaces: %s" % [x[0] for x in a], reqs[5 * i:5 * i + 2], lang=lang, what="whitespace"))
            else:
                # spans cover the same words
                wa = [[x[0] for x in tk1[o[0]:o[1]] if not is_ws(x[0])] for o in o1]
                wb = [[x[0] for x in tk2[o[0]:o[1]] if not is_ws(x[0])] for o in o2]
                norm = lambda ws: [_WS_RE.sub(" ", x) for x in ws]
                if [norm(x) for x in wa] != [norm(x) for x in wb]:
                    failures.append(fail(w, "spans cover %s" % wb, "%s" % wa, reqs[5 * i:5 * i + 2], lang=lang, what="whitespace-span"))
            if outs[5 * i + 2] != outs[5 * i + 3]:
                failures.append(fail(w, "validate -> " + unesc(outs[5 * i + 3]), unesc(outs[5 * i + 2]), reqs[5 * i + 2:5 * i + 4], lang=lang, what="whitespace-validate"))
            # whitespace outside rewritten spans is passed through untouched: output = splice over the tokens of w
            out, pos = [], 0
            for o in o2:
                out.extend(x[0] for x in tk2[pos:o[0]])
                out.append(o[2])
                pos = o[1]
            out.extend(x[0] for x in tk2[pos:])
            if "".join(out) != unesc(outs[5 * i + 4]):
                failures.append(fail(w, unesc(outs[5 * i + 4]), "".join(out), [reqs[5 * i + 4]], lang=lang, what="whitespace-passthrough"))
            distinct.add((lang, t))
        ctx.samples.setdefault("c17", []).append({"lang": lang, "text": meta[2][0], "substituted": meta[2][1]})
    return {"evaluations": n, "distinct_nontrivial": len(distinct), "failures": failures[:5000],
            "rule": "each whitespace run replaced by runs drawn from all 25 White_Space code points (+ leading/trailing additions); occurrences, validation and pass-through compared"}


# ------------------------------------------------------------------------------------------------
# C18: English 'o'

def oracle_c18(ctx, focus):
    failures, n, distinct = [], 0, set()
    lang = "en"
    rng = SplitMix64(ctx.seed * 1009)
    thrs = [THR0, t2nlib.thr_bits(1.0), t2nlib.thr_bits(10.0), t2nlib.thr_bits(float("inf")), t2nlib.thr_bits(float("nan"))]
    numw = ["one", "eight", "twelve", "twenty", "hundred", "thousand", "first", "third", "twenty-one", "zero", "fifth", "nought", "ninety"]
    plain = ["cat", "x", "oscar", "the", "and", "is", "s", "point", "a"]
    punct = [",", ".", ";", "!", "-", "(", "...", ":", "\u0001", "\u001f", "\u0000", "\u2010", "7",
             # format characters: invisible, but not blanks -- punctuation for the neighbour rule
             "\ufeff", "\u200b", "\u2060", "\u00ad", "\u200d", "\u061c"]
    punct += [c for c in _srcmine.special_chars() if c not in punct and c not in "'-"]
    # every alphabetic string literal of the English module that is not a number word is a possible neighbour too
    # (a special case for one particular word next to `o` would name that word in the source)
    import vocab as _vocab
    lits = [w for w in _vocab.source_literals("en") if w.isalpha() and w.islower() and 1 < len(w) < 12]
    lit_pr = run_impl(ctx, "c18l", ["apply\ten\t%s\t|0|0|0|-" % esc(w) for w in lits])
    lit_plain = [w for w, a in zip(lits, lit_pr) if not a.startswith("OK")]
    neigh = numw + plain + punct + ["o", "O", ""]
    wss = [" ", "  ", " ", "\t", " ", "\n"]
    texts = []

    def build(seq, ws):
        # join neighbours with whitespace; punctuation glued as written
        out = []
        for k, w in enumerate(seq):
            if w == "":
                continue
            if out:
                out.append(ws())
            out.append(w)
        return "".join(out)
    for l in neigh:
        for r in neigh:
            for l2 in (["", "cat", "two"] if ctx.tier != "thorough" else neigh):
                texts.append([l2, l, "o", r])
                texts.append([l, "o", r, l2])
    # a flagged `o` arriving while a number is still pending (after `and` / `point`) next to a small isolated number
    smalls = ["five", "two", "third", "one"]
    for num in numw:
        for link in ("and", "point", ""):
            for sep in punct + ["cat", "x", "the"]:
                sm = rng.choice(smalls)
                texts.append([num, link, "o" + sep if sep in punct and rng.chance(1, 2) else "o", "" if sep in punct and False else sep, sm])
                texts.append([sm + ("," if rng.chance(1, 2) else ""), num, link, "o"])
                texts.append([sm, sep, num, link, "o", sep, rng.choice(smalls)])
    # whole spelled numbers written as ONE hyphenated token (the interpreter accepts them), short and very long
    for ph in [p_ for p_ in phrase_bank(ctx, "en") if 1 < len(p_.split(" ")) < 12][:: 3]:
        tok_ = ph.replace(" ", "-")
        texts.append([tok_, "o"])
        texts.append(["x", "o", tok_, "y"])
        texts.append(["dial", "o", tok_, "now"])
    # hyphenated compounds of vocabulary words, the conjunction included (`hundred-and`: ends mid-number)
    comp = [x + "-and" for x in numw if x.isalpha()] + ["and-" + x for x in numw[:4]]
    # every ordered pair of number words glued by a hyphen -- numbers (`twenty-one`), and compounds whose parts are number words
    # that do not fit together (`one-twenty`, `ten-zero`, `o-one`: the interpreter answers Overlap, not "unknown word")
    nw2 = [x for x in numw if x.isalpha()] + ["ten", "thirty", "five", "o", "million", "second"]
    comp += [x + "-" + y for x in nw2 for y in nw2] + [x + "-" + y + "-" + x for x in nw2[:6] for y in nw2[3:9]]
    for c_ in comp:
        texts.append([c_, "o", "x"])
        texts.append(["x", "o", c_])
        texts.append([c_, "o,", "five"])
    for w in lit_plain:
        for num in ("five", "twelve", "twenty"):
            texts.append([num, "o", w])
            texts.append([w, "o", num])
            texts.append([num, "o", w, "x"])
    for _ in range(1500 if ctx.tier != "thorough" else 30000):
        k = 2 + rng.below(6)
        seq = [rng.choice(neigh + ["o", "o"]) for _ in range(k)]
        if "o" not in seq and "O" not in seq:
            seq[rng.below(k)] = "o"
        texts.append(seq)
    # an `o` after z ordinary words, z a size mined from the source (srcmine.py): the neighbour rule far from the start of the text
    for z in _srcmine.sizes(41, 300000):
        for tail in (["my", "name", "is", "o", "s", "c", "a", "r"], ["x", "o,", "y"], ["five", "o", "x"], ["x", "o", "twenty"]):
            texts.append(["word"] * z + tail)
    reqs, meta = [], []
    for seq in texts:
        wsk = rng.choice(wss)
        ws = (lambda wsk=wsk: wsk)
        t = build(seq, ws)
        # expected reading: each `o` behaves like `zero` if the nearest non-whitespace token on either side is a number word,
        # else like an ordinary word. Tokens: words and punctuation runs as tokenized; decide on the token sequence.
        th = rng.choice(thrs)
        reqs.append("occ\t%s\t%s\t%s" % (lang, th, esc(t)))
        meta.append((t, th))
    outs = run_impl(ctx, "c18a", reqs)
    # phase 2: substitute according to the rule, using the implementation's own tokenization of t
    reqs2, meta2 = [], []
    probe = {}
    cand = sorted({x[0].lower() for o in outs if o != "PANIC" for x in parse_occ_answer(o)[1]})
    pr = run_impl(ctx, "c18p", ["apply\ten\t%s\t|0|0|0|-" % esc(w) for w in cand])
    for w, a in zip(cand, pr):
        probe[w] = a.startswith("OK")
    for (t, th), o in zip(meta, outs):
        n += 1
        if o == "PANIC":
            failures.append(fail(t, "PANIC", "returns", [], what="panic"))
            continue
        occs, toks = parse_occ_answer(o)
        sig = [i for i, x in enumerate(toks) if not is_ws_or_empty(x[0])]
        subst = [x[0] for x in toks]
        expect_nan = {}
        for k, i in enumerate(sig):
            if toks[i][0].lower() == "o":
                prev_ok = k > 0 and probe.get(toks[sig[k - 1]][0].lower(), False)
                next_ok = k + 1 < len(sig) and probe.get(toks[sig[k + 1]][0].lower(), False)
                isnum = prev_ok or next_ok
                expect_nan[i] = not isnum
                subst[i] = "zero" if isnum else "xyzzy"
        for i, want in expect_nan.items():
            if toks[i][1] != want:
                failures.append(fail(t, "token %d 'o' annotated not-a-number=%s" % (i, toks[i][1]), "not-a-number=%s (neighbour is %sa number word)" % (want, "not " if want else ""),
                                     ["occ\ten\t%s\t%s" % (th, esc(t))], lang="en", what="o-annotation"))
        t2 = "".join(subst)
        reqs2 += ["occ\ten\t%s\t%s" % (th, esc(t)), "occ\ten\t%s\t%s" % (th, esc(t2))]
        meta2.append((t, t2))
        distinct.add(tuple(x[0].lower() for x in toks if not is_ws(x[0])))
    outs2 = run_impl(ctx, "c18b", reqs2)
    for i, (t, t2) in enumerate(meta2):
        n += 2
        a, ta = parse_occ_answer(outs2[2 * i])
        b, tb = parse_occ_answer(outs2[2 * i + 1])
        if a is None or b is None or len(ta) != len(tb):
            failures.append(fail(t, "PANIC or different tokenization", "same tokens as %r" % t2, reqs2[2 * i:2 * i + 2], lang="en", what="o-as-zero"))
        elif a != b:
            failures.append(fail(t, "occurrences %s" % [(o[0], o[1], o[2]) for o in a], "%s   (those of %r)" % ([(o[0], o[1], o[2]) for o in b], t2),
                                 reqs2[2 * i:2 * i + 2], lang="en", what="o-as-zero"))
    ctx.samples["c18"] = [{"text": meta2[5][0], "equivalent": meta2[5][1]}] if len(meta2) > 5 else []
    return {"evaluations": n, "distinct_nontrivial": len(distinct), "failures": failures[:5000],
            "rule": "left/right neighbours of 'o' over number words of every class, ordinary words, punctuation, 'o', text boundaries x whitespace kinds x thresholds {0,1,10,inf,NaN}; compared with the sentence where 'o' is 'zero' resp. an ordinary word"}
