"""Executable oracles that judge the *implementation* directly (DESIGN.md §2.6 step 3).
Each returns {"evaluations": n, "distinct_nontrivial": m, "failures": [...]}; a failure carries the
request lines that reproduce it (`requests`), the input, what was observed and what was expected."""
import os, sys, re
sys.path.insert(0, os.path.dirname(os.path.abspath(__file__)))
import t2nlib, streams
from t2nlib import esc, unesc, thr_bits, LANGS, SplitMix64


def run_impl(ctx, tag, lines):
    """run request lines on the implementation only"""
    reqp = ctx.path(tag + ".oreq")
    with open(reqp, "w", encoding="utf-8") as f:
        for l in lines:
            f.write(l + "\n")
    outp = ctx.path(tag + ".oimpl")
    rc, err = t2nlib.run_exec(t2nlib.HARNESS_BIN, reqp, outp)
    if rc != 0:
        raise RuntimeError("harness failed: " + err)
    out = open(outp, encoding="utf-8").read().split("\n")
    if out and out[-1] == "":
        out.pop()
    assert len(out) == len(lines), (len(out), len(lines))
    return out


def fail(inp, observed, expected, requests, **kw):
    d = {"input": inp, "observed": observed, "expected": expected, "requests": requests}
    d.update(kw)
    return d


# ------------------------------------------------------------------------------------------------
# C12: digit builder invariants, checked on the implementation's answers to the S-ds stream

def _is_subseq(a, b):
    it = iter(b)
    return all(c in it for c in a)


def check_ds_answer(req, ans):
    """yield (what, observed, expected) for every violated clause of C12 in one ds request"""
    ops = [o for o in req.split("\t")[1].split(" ") if o]
    if ans == "PANIC":
        yield ("panic", "PANIC", "no panic")
        return
    steps = ans.split(";")
    if len(steps) != len(ops) + 1:
        yield ("shape", ans[:100], "one answer per op")
        return
    prev = None
    for i, st in enumerate(steps):
        f = st.split("|")
        if len(f) != 7:
            yield ("shape", st, "res|buf|lz|frozen|flags|marker|queries")
            return
        res, buf, lz, frozen, flags, marker, q = f
        qf = q.split(",")
        ln, eno, peeks, frees, rfs, pfs, render = qf
        lz = int(lz)
        cur = dict(res=res, buf=buf, lz=lz, frozen=frozen == "1", snap="|".join(f[1:]), render=render)
        # always valid
        if not re.fullmatch(r"[0-9]*", render):
            yield ("render-not-digits", render, "ASCII digits")
        if len(render) != int(ln):
            yield ("len", "len=%s render=%s" % (ln, render), "len == |render|")
        if render != "0" * lz + buf:
            yield ("render", render, "0"*lz + buf)
        if "P" in pfs:
            yield ("panic", "is_position_free panicked", "no panic")
        if "P" in rfs[:5]:
            yield ("panic", "is_range_free(a<b) panicked", "no panic")
        if i > 0:
            op = ops[i - 1].split(":")
            kind = op[0]
            mut = kind in ("put", "at", "sh", "fput", "push")
            if res.startswith("ERR") and cur["snap"] != prev["snap"]:
                yield ("failure-atomicity", "%s: %s -> %s" % (ops[i - 1], prev["snap"], cur["snap"]), "unchanged on error")
            if prev["frozen"] and mut:
                if res != "ERR:Frozen":
                    yield ("frozen", "%s on frozen builder: %s" % (ops[i - 1], res), "ERR:Frozen")
            elif res == "OK" and mut:
                pv = int(prev["buf"] or "0")
                cv = int(buf or "0")
                canon = prev["buf"] == "" or prev["buf"][0] != "0"
                nz = lambda s: s.replace("0", "")
                if kind == "put":
                    ds = op[1]
                    if prev["buf"] == "" and ds == "0":
                        if not (lz == prev["lz"] + 1 and buf == ""):
                            yield ("zero", "%s -> %s" % (prev["snap"], cur["snap"]), "leading zero counted")
                    else:
                        if set(ds) <= {"0"}:
                            yield ("zero", "put:%s accepted on %s" % (ds, prev["snap"]), "zeros only while the value is zero")
                        if cv != pv + int(ds):
                            yield ("put-value", "%d" % cv, "%d" % (pv + int(ds)))
                        if prev["buf"] and set(prev["buf"][-len(ds):]) - {"0"}:
                            yield ("put-free", prev["buf"], "target positions free")
                        if not _is_subseq(nz(prev["buf"]), buf):
                            yield ("digit-lost", "%s -> %s" % (prev["buf"], buf), "previous non-zero digits kept in order")
                        if lz != prev["lz"]:
                            yield ("zero", "lz changed", "leading zeros kept")
                elif kind == "at":
                    d, p = int(op[1]), int(op[2])
                    if cv != pv + d * 10 ** p:
                        yield ("putat-value", "%d" % cv, "%d" % (pv + d * 10 ** p))
                    if not _is_subseq(nz(prev["buf"]), buf):
                        yield ("digit-lost", "%s -> %s" % (prev["buf"], buf), "previous non-zero digits kept in order")
                elif kind == "sh" and canon:
                    p = int(op[1])
                    if p == 0:
                        exp = pv
                    else:
                        g = pv % (10 ** p)
                        if g == 0:
                            g = 1
                            exp = pv + 10 ** p
                        else:
                            exp = pv - g + g * 10 ** p
                    if cv != exp:
                        yield ("shift-value", "%s sh:%d -> %s" % (prev["buf"], p, buf), "%d" % exp)
                    if not _is_subseq(nz(prev["buf"]), buf):
                        yield ("digit-lost", "%s -> %s" % (prev["buf"], buf), "previous non-zero digits kept in order")
                elif kind == "push":
                    if render != prev["render"] + op[1]:
                        yield ("push", render, prev["render"] + op[1])
        prev = cur


def oracle_c12(ctx, focus):
    reqs, impl, _ = ctx._cache["ds"]
    failures = []
    shapes = set()
    n = 0
    for r, a in zip(reqs, impl):
        n += 1
        shapes.add(a.rsplit(";", 1)[-1].split("|", 1)[0] + str(len(a.split(";"))))
        for (what, obs, exp) in check_ds_answer(r, a):
            if len(failures) < 50:
                failures.append(fail(r.split("\t")[1], "%s: %s" % (what, obs), exp, [r], clause=what))
    ctx.samples["c12"] = [{"ops": reqs[len(reqs) // 3].split("\t")[1], "answer": impl[len(reqs) // 3][:200]}]
    return {"evaluations": n, "distinct_nontrivial": len(set(impl)), "failures": failures,
            "rule": "every S-ds operation sequence; distinct = distinct final answers"}


# ------------------------------------------------------------------------------------------------
# specification-driven oracles (C01, C04, C05, C08, C16): inputs and expectations come from the Lean
# spellers (`gen` requests answered by the driver from T2N/Spec, not from the model of the code)

def run_gen(ctx, tag, lines):
    reqp = ctx.path(tag + ".greq")
    with open(reqp, "w", encoding="utf-8") as f:
        for l in lines:
            f.write(l + "\n")
    outp = ctx.path(tag + ".gout")
    rc, err = t2nlib.run_exec(t2nlib.DRIVER_BIN, reqp, outp, args=("--cc", t2nlib.ensure_cc_table()))
    if rc != 0:
        raise RuntimeError("driver failed: " + err)
    out = open(outp, encoding="utf-8").read().split("\n")
    if out and out[-1] == "":
        out.pop()
    assert len(out) == len(lines), (len(out), len(lines))
    return out


CONTEXT = {
    "en": ("we saw", "cats there"), "fr": ("nous avons vu", "chats hier"), "es": ("vimos", "gatos ayer"),
    "pt": ("vimos", "gatos ontem"), "it": ("abbiamo visto", "gatti ieri"), "de": ("wir sahen", "Katzen dort"),
    "nl": ("wij zagen", "katten daar"),
}

BOUNDARY = [1, 2, 7, 9, 10, 11, 12, 15, 16, 17, 19, 20, 21, 22, 28, 30, 31, 38, 40, 60, 61, 70, 71, 77, 80, 81, 88, 90,
            91, 99, 100, 101, 110, 111, 115, 120, 121, 200, 300, 500, 700, 900, 999, 800, 880]


def card_numbers(tier, seed, lang_idx):
    rng = SplitMix64(seed * 7919 + lang_idx)
    out = []
    small = 3000 if tier != "thorough" else 100000
    for n in range(small):
        out.append((n, 0))
        out.append((n, 1 + rng.below(10 ** 6)))
    for g in range(1, 1000):
        for sc in (10 ** 3, 10 ** 6, 10 ** 9):
            out.append((g * sc, 0))
            out.append((g * sc + rng.below(sc), 1 + rng.below(10 ** 6)))
    for a in BOUNDARY:
        for b in BOUNDARY:
            out.append((a * 1000 + b, 1 + rng.below(10 ** 6)))
            if tier == "thorough" or rng.chance(1, 3):
                out.append((a * 10 ** 6 + b, 1 + rng.below(10 ** 6)))
                out.append((a * 10 ** 9 + b * 10 ** 3, 1 + rng.below(10 ** 6)))
                out.append((a * 10 ** 9 + b * 10 ** 6 + a * 1000 + b, 1 + rng.below(10 ** 6)))
    for _ in range(4000 if tier != "thorough" else 200000):
        n = rng.below(10 ** 12)
        if rng.chance(1, 3):
            # sparse numbers: zero out some groups
            gs = [rng.below(1000) if rng.chance(1, 2) else 0 for _ in range(4)]
            n = gs[0] * 10 ** 9 + gs[1] * 10 ** 6 + gs[2] * 10 ** 3 + gs[3]
        out.append((n, rng.below(10 ** 6)))
    return out


def _spec_cases(ctx, tag, genlines):
    """run gen lines; return list of (genline, phrase, expected) skipping '-' (not spelled)"""
    outs = run_gen(ctx, tag, genlines)
    cases = []
    for g, o in zip(genlines, outs):
        if o in ("-", "no-lang", "bad-gen") or "|" not in o:
            continue
        ph, exp = o.split("|", 1)
        cases.append((g, unesc(ph), exp))
    return cases


def _check_val_and_text(ctx, tag, lang, cases, thr="0000000000000000", with_text=True, expect_ordinal=None):
    """cases: (genline, phrase, expected_escaped). Checks validation and in-sentence rewriting."""
    pre, suf = CONTEXT[lang]
    reqs = []
    for (g, ph, exp) in cases:
        reqs.append("val\t%s\t%s" % (lang, esc(ph)))
        if with_text:
            reqs.append("occ\t%s\t%s\t%s" % (lang, thr, esc(pre + " " + ph + " " + suf)))
            reqs.append("text\t%s\t%s\t%s" % (lang, thr, esc(pre + " " + ph + " " + suf)))
    outs = run_impl(ctx, tag, reqs)
    failures = []
    step = 3 if with_text else 1
    for i, (g, ph, exp) in enumerate(cases):
        v = outs[i * step]
        if v != "OK:" + exp:
            failures.append(fail(ph, "validate -> " + unesc(v), unesc(exp), [reqs[i * step]], lang=lang, gen=g, what="validate"))
            continue
        if with_text:
            occ = outs[i * step + 1]
            txt = outs[i * step + 2]
            want = esc(pre + " " + unesc(exp) + " " + suf)
            if txt != want:
                failures.append(fail(ph, "rewrite -> " + unesc(txt), unesc(want), [reqs[i * step + 2]], lang=lang, gen=g, what="rewrite"))
                continue
            occs = [o for o in occ.split("|")[0].split(",") if o]
            if len(occs) != 1:
                failures.append(fail(ph, "occurrences: " + occ.split("|")[0], "exactly one occurrence", [reqs[i * step + 1]], lang=lang, gen=g, what="split"))
                continue
            f = occs[0].split(":")
            if expect_ordinal is not None and f[2] != ("1" if expect_ordinal else "0"):
                failures.append(fail(ph, "is_ordinal=" + f[2], "is_ordinal=%d" % expect_ordinal, [reqs[i * step + 1]], lang=lang, gen=g, what="flag"))
    return failures, len(reqs)


def oracle_c01(ctx, focus, langs=None):
    failures, n, distinct = [], 0, set()
    for li, lang in enumerate(langs or LANGS):
        nums = card_numbers(ctx.tier, ctx.seed, li)
        gl = ["gen\tcard\t%s\t%d\t%d" % (lang, n_, s) for (n_, s) in nums]
        cases = _spec_cases(ctx, "c01" + lang, gl)
        # text-level check on a third of the cases
        a = [c for i, c in enumerate(cases) if i % 3 == 0]
        b = [c for i, c in enumerate(cases) if i % 3 != 0]
        f1, n1 = _check_val_and_text(ctx, "c01t" + lang, lang, a, with_text=True, expect_ordinal=0)
        f2, n2 = _check_val_and_text(ctx, "c01v" + lang, lang, b, with_text=False)
        failures += f1[:30] + f2[:30]
        n += n1 + n2
        distinct |= {(lang, c[1]) for c in cases}
        if cases:
            ctx.samples.setdefault("c01", []).append({"lang": lang, "phrase": cases[len(cases) // 2][1], "expected": unesc(cases[len(cases) // 2][2])})
    return {"evaluations": n, "distinct_nontrivial": len(distinct), "failures": failures,
            "rule": "spelled cardinals from the Lean spec (all n<3000 std+random variant, every group at every scale, boundary pairs, random n<10^12); distinct = distinct phrases"}


def ord_cases(tier, seed, lang, ordmax, ninfl):
    rng = SplitMix64(seed * 104729 + len(lang) + ordmax)
    ranks = list(range(1, min(ordmax, 1500 if tier != "thorough" else 20000) + 1))
    if ordmax > 3000:
        for _ in range(3000 if tier != "thorough" else 100000):
            ranks.append(1 + rng.below(ordmax))
        ranks += [k * 1000 for k in (1, 2, 3, 10, 11, 21, 100, 101, 200, 999, 1000)] + [k * 100 for k in range(1, 100)]
    out = []
    for r in ranks:
        if r > ordmax:
            continue
        for i in range(ninfl):
            if tier == "thorough" or i == 0 or rng.chance(1, 2):
                out.append((r, rng.below(10 ** 6) if rng.chance(1, 2) else 0, i))
    return out


ORD_SPEC = {"en": (10 ** 6, 2), "fr": (10 ** 6, 6), "es": (1999, 5), "pt": (1999, 4), "it": (10 ** 6, 4),
            "de": (10 ** 6, 5), "nl": (10 ** 6, 1)}


def oracle_c04(ctx, focus, langs=None):
    failures, n, distinct = [], 0, set()
    for lang in (langs or LANGS):
        ordmax, ninfl = ORD_SPEC[lang]
        gl = ["gen\tord\t%s\t%d\t%d\t%d" % (lang, r, s, i) for (r, s, i) in ord_cases(ctx.tier, ctx.seed, lang, ordmax, ninfl)]
        cases = _spec_cases(ctx, "c04" + lang, gl)
        a = [c for i, c in enumerate(cases) if i % 2 == 0]
        b = [c for i, c in enumerate(cases) if i % 2 == 1]
        f1, n1 = _check_val_and_text(ctx, "c04t" + lang, lang, a, with_text=True, expect_ordinal=1)
        f2, n2 = _check_val_and_text(ctx, "c04v" + lang, lang, b, with_text=False)
        # value = n: checked on the occurrence of the text-level cases
        failures += f1[:30] + f2[:30]
        n += n1 + n2
        distinct |= {(lang, c[1]) for c in cases}
        if cases:
            ctx.samples.setdefault("c04", []).append({"lang": lang, "phrase": cases[len(cases) // 2][1], "expected": unesc(cases[len(cases) // 2][2])})
    return {"evaluations": n, "distinct_nontrivial": len(distinct), "failures": failures,
            "rule": "spelled ordinals (all ranks up to 1500 + random ranks up to the language's range) x inflections; distinct = distinct phrases"}


def oracle_c05(ctx, focus, langs=None):
    failures, n, distinct = [], 0, set()
    for li, lang in enumerate(langs or LANGS):
        rng = SplitMix64(ctx.seed * 31337 + li)
        gl = []
        ints = [0, 1, 2, 9, 10, 12, 21, 80, 99, 100, 101, 1000, 1999, 2020, 10 ** 6, 123456789]
        fr3 = ["%d" % d for d in range(10)] + ["%02d" % d for d in range(100)] + ["%03d" % d for d in range(0, 1000, 7)]
        for i_ in ints:
            for d in (fr3 if ctx.tier == "thorough" else fr3[::3]):
                gl.append("gen\tdec\t%s\t%d\t%d\t%s" % (lang, i_, 0, d))
        for _ in range(3000 if ctx.tier != "thorough" else 100000):
            k = 1 + rng.below(6)
            d = "".join(str(rng.below(10)) if rng.chance(2, 3) else "0" for _ in range(k))
            gl.append("gen\tdec\t%s\t%d\t%d\t%s" % (lang, rng.below(10 ** 9) if rng.chance(1, 2) else rng.below(1000), rng.below(10 ** 6), d))
        cases = _spec_cases(ctx, "c05" + lang, gl)
        pre, suf = CONTEXT[lang]
        reqs = []
        for (g, ph, exp) in cases:
            th = rng.choice(["0000000000000000", t2nlib.thr_bits(10.0), t2nlib.thr_bits(float("inf"))])
            reqs.append("occ\t%s\t%s\t%s" % (lang, th, esc(pre + " " + ph + " " + suf)))
            reqs.append("text\t%s\t%s\t%s" % (lang, th, esc(pre + " " + ph + " " + suf)))
        outs = run_impl(ctx, "c05" + lang, reqs)
        for i, (g, ph, exp) in enumerate(cases):
            want = esc(pre + " " + unesc(exp) + " " + suf)
            occs = [o for o in outs[2 * i].split("|")[0].split(",") if o]
            if outs[2 * i + 1] != want:
                failures.append(fail(ph, "rewrite -> " + unesc(outs[2 * i + 1]), unesc(want), [reqs[2 * i + 1]], lang=lang, gen=g, what="rewrite"))
            elif len(occs) != 1:
                failures.append(fail(ph, "occurrences " + outs[2 * i], "one occurrence", [reqs[2 * i]], lang=lang, gen=g, what="split"))
            else:
                f = occs[0].split(":")
                expv = t2nlib.f64bits(float(unesc(exp).replace(",", ".")))
                if f[3] != expv or f[2] != "0":
                    failures.append(fail(ph, "value bits %s ordinal %s" % (f[3], f[2]), "value %s, not ordinal" % expv, [reqs[2 * i]], lang=lang, gen=g, what="value"))
        n += len(reqs)
        distinct |= {(lang, c[1]) for c in cases}
        # separator alone / nothing usable after
        sepreqs, sepwant = [], []
        gl2 = ["gen\tdec\t%s\t%d\t0\t5" % (lang, k) for k in (3, 21)]
        for (g, ph, exp) in _spec_cases(ctx, "c05s" + lang, gl2):
            words = ph.split(" ")
            sepw = words[-2]
            intp = " ".join(words[:-2])
            intd = unesc(exp).replace(",", ".").split(".")[0]
            for text, want in ((sepw + " " + suf, sepw + " " + suf),                # no number before
                               (pre + " " + sepw + " " + words[-1], None),           # separator after a non-number: stays a word
                               (intp + " " + sepw + " " + suf, intd + " " + sepw + " " + suf),   # nothing usable after
                               (intp + " " + sepw, intd + " " + sepw)):
                sepreqs.append("text\t%s\t0000000000000000\t%s" % (lang, esc(text)))
                sepwant.append((text, want, sepw))
        souts = run_impl(ctx, "c05s" + lang, sepreqs)
        for r, o, (text, want, sepw) in zip(sepreqs, souts, sepwant):
            got = unesc(o)
            if want is not None and got != want:
                failures.append(fail(text, got, want, [r], lang=lang, what="separator-alone"))
            if want is None and sepw not in got:
                failures.append(fail(text, got, "separator word kept", [r], lang=lang, what="separator-alone"))
        n += len(sepreqs)
        if cases:
            ctx.samples.setdefault("c05", []).append({"lang": lang, "phrase": cases[len(cases) // 2][1], "expected": unesc(cases[len(cases) // 2][2])})
    return {"evaluations": n, "distinct_nontrivial": len(distinct), "failures": failures[:60],
            "rule": "integer x fraction-digit-string grid + random (n<10^9, 1-6 digits) at thresholds 0/10/inf; separator-alone cases"}


def oracle_c16(ctx, focus, langs=None):
    failures, n, distinct = [], 0, set()
    for li, lang in enumerate(langs or LANGS):
        rng = SplitMix64(ctx.seed * 7 + li + 99)
        gl = ["gen\tzeros\t%s\t1\t0\t0" % lang]
        nums = [x for x in card_numbers("quick", ctx.seed, li) if 0 < x[0] < 10 ** 9]
        step = 1 if ctx.tier == "thorough" else 4
        for idx, (n_, s) in enumerate(nums):
            if idx % step:
                continue
            k = rng.below(7)
            gl.append("gen\tzeros\t%s\t%d\t%d\t%d" % (lang, k, n_, s))
        cases = _spec_cases(ctx, "c16" + lang, gl)
        # `zeros 1 0` is "zero zero" -> not in the property; replace by the lone zero
        cases = [c for c in cases if not c[0].endswith("\t1\t0\t0")]
        f1, n1 = _check_val_and_text(ctx, "c16" + lang, lang, cases, with_text=True)
        failures += f1[:30]
        n += n1
        # lone zero
        z = _spec_cases(ctx, "c16z" + lang, ["gen\tzeros\t%s\t0\t0\t0" % lang])
        f2, n2 = _check_val_and_text(ctx, "c16z" + lang, lang, z, with_text=True)
        failures += f2
        n += n2
        # zero after a number
        gl3 = ["gen\tzeroafter\t%s\t%d\t%d" % (lang, n_, s) for idx, (n_, s) in enumerate(nums) if idx % (step * 5) == 0]
        za = _spec_cases(ctx, "c16a" + lang, gl3)
        reqs = ["text\t%s\t0000000000000000\t%s" % (lang, esc(ph)) for (g, ph, exp) in za]
        outs = run_impl(ctx, "c16a" + lang, reqs)
        for r, o, (g, ph, exp) in zip(reqs, outs, za):
            if o != exp:
                failures.append(fail(ph, unesc(o), unesc(exp), [r], lang=lang, gen=g, what="zero-after"))
        n += len(reqs)
        distinct |= {(lang, c[1]) for c in cases + za}
        if cases:
            ctx.samples.setdefault("c16", []).append({"lang": lang, "phrase": cases[len(cases) // 2][1], "expected": unesc(cases[len(cases) // 2][2])})
    return {"evaluations": n, "distinct_nontrivial": len(distinct), "failures": failures[:60],
            "rule": "k in [0,6] zeros x cardinals n<10^9 (C01 input sets), lone zero, zero after a number"}


def oracle_c08(ctx, focus, langs=None):
    failures, n, distinct = [], 0, set()
    for li, lang in enumerate(langs or LANGS):
        rng = SplitMix64(ctx.seed * 13 + li)
        gl = []
        for a in range(100):
            for b in range(100):
                for j in (0, 1):
                    gl.append("gen\tpair\t%s\t%d\t%d\t%d" % (lang, a, b, j))
        outs = run_gen(ctx, "c08" + lang, gl)
        cases = []
        for g, o in zip(gl, outs):
            if "|" not in o:
                continue
            ph, allowed = o.split("|", 1)
            cases.append((g, unesc(ph), [unesc(x) for x in allowed.split(";")]))
        reqs = ["text\t%s\t0000000000000000\t%s" % (lang, esc(ph)) for (g, ph, al) in cases]
        res = run_impl(ctx, "c08" + lang, reqs)
        for r, o, (g, ph, al) in zip(reqs, res, cases):
            if unesc(o) not in al:
                failures.append(fail(ph, unesc(o), " | ".join(al), [r], lang=lang, gen=g, what="pair"))
        n += len(reqs)
        distinct |= {(lang, c[1]) for c in cases}
        # dictation
        maxlen = 5 if ctx.tier != "thorough" else 6
        digs = []
        for L in range(1, maxlen + 1):
            if L <= 4:
                digs += ["%0*d" % (L, x) for x in range(10 ** L)]
            else:
                digs += ["%0*d" % (L, rng.below(10 ** L)) for _ in range(6000)]
        digs += ["".join(str(rng.below(10)) if rng.chance(1, 2) else "0" for _ in range(6 + rng.below(7))) for _ in range(2000)]
        gl2 = ["gen\tdict\t%s\t%s" % (lang, d) for d in digs]
        dc = _spec_cases(ctx, "c08d" + lang, gl2)
        reqs = ["text\t%s\t0000000000000000\t%s" % (lang, esc(ph)) for (g, ph, exp) in dc]
        res = run_impl(ctx, "c08d" + lang, reqs)
        for r, o, (g, ph, exp) in zip(reqs, res, dc):
            if o != exp:
                failures.append(fail(ph, unesc(o), unesc(exp), [r], lang=lang, gen=g, what="dictation"))
        n += len(reqs)
        distinct |= {(lang, c[1]) for c in dc}
        if cases:
            ctx.samples.setdefault("c08", []).append({"lang": lang, "phrase": cases[2143][1], "allowed": cases[2143][2]})
    return {"evaluations": n, "distinct_nontrivial": len(distinct), "failures": failures[:80],
            "rule": "all pairs (a,b) in [0,99]^2 x {space, conjunction}; all digit strings of length <= 4, sampled longer ones"}


if __name__ == "__main__":
    # ad-hoc: python3 tools/oracles.py c01 fr [tier] [seed]
    import tempfile, shutil, json, props
    name, lang = sys.argv[1], sys.argv[2]
    tier = sys.argv[3] if len(sys.argv) > 3 else "quick"
    seed = int(sys.argv[4]) if len(sys.argv) > 4 else 1
    ok, msg = t2nlib.build_harness()
    if not ok:
        print(msg); sys.exit(2)
    work = tempfile.mkdtemp(prefix="orc_", dir=t2nlib.BUILD)
    try:
        ctx = props.Ctx("adhoc", tier, seed, work)
        res = globals()["oracle_" + name](ctx, [], langs=[lang])
        fs = res.pop("failures")
        print(json.dumps(res, ensure_ascii=False))
        by = {}
        for f in fs:
            by.setdefault(f.get("what"), []).append(f)
        for k, v in by.items():
            print("== %s: %d failures (showing up to 15)" % (k, len(v)))
            for f in v[:15]:
                print("  input=%r observed=%r expected=%r" % (f["input"], f["observed"], f["expected"]))
        print("failures=%d" % len(fs))
    finally:
        shutil.rmtree(work, ignore_errors=True)
