#!/bin/bash
# Run tools/seedtest.py against a scratch fork (copy of /verif + clone of /repo) so that seeded patches are never applied
# to /repo while other runs use it. Results (seeded/*/meta.json) are copied back.   usage: tools/seedfork.sh [id-prefix ...]
set -e
F=${SEEDFORK:-/var/tmp/t2n-seedfork}; SV=$F/verif; SR=$F/repo
mkdir -p $F
rsync -a --delete --exclude .git /verif/ $SV/
rm -rf $SR; git clone -q /repo $SR
sed -i "s#path = \"/repo\"#path = \"$SR\"#" $SV/harness/Cargo.toml
sed -i "s#REPO = \"/repo\"#REPO = \"$SR\"#" $SV/tools/t2nlib.py
sed -i "s#/repo#$SR#g" $SV/tools/seedtest.py
(cd $SV && python3 tools/seedtest.py "$@")
# copy back the records of the seeds that were run (all of them when no prefix was given), with the fork's paths undone
for d in $SV/seeded/*/; do
  n=$(basename $d); [ -f $d/meta.json ] || continue
  hit=0; [ $# -eq 0 ] && hit=1
  for pre in "$@"; do case "$n" in "$pre"*) hit=1;; esac; done
  [ $hit -eq 1 ] && sed "s#$SV#/verif#g; s#$SR#/repo#g" $d/meta.json > /verif/seeded/$n/meta.json
done
