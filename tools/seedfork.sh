#!/bin/bash
# Run tools/seedtest.py against a scratch fork (copy of /verif + clone of /repo) so that seeded patches are never applied
# to /repo while other runs use it. Results (seeded/*/meta.json) are copied back.   usage: tools/seedfork.sh [id-prefix ...]
set -e
F=${SEEDFORK:-/var/tmp/t2n-seedfork}; SV=$F/verif; SR=$F/repo
mkdir -p $F
rsync -a --delete --exclude .git /verif/ $SV/
rm -rf $SR; git clone -q /repo $SR
sed -i "s#path = \"/repo\"#path = \"$SR\"#" $SV/harness/Cargo.toml
sed -i "s#REPO = \"/repo\"#REPO = \"$SR\"#" $SV/tools/t2nlib.py
sed -i "s#/repo#$SR#g" $SV/tools/seedtest.py
(cd $SV && python3 tools/seedtest.py "$@")
for d in $SV/seeded/*/; do n=$(basename $d); [ -f $d/meta.json ] && cp $d/meta.json /verif/seeded/$n/meta.json; done
sed -i "s#$SV#/verif#g; s#$SR#/repo#g" /verif/seeded/*/meta.json
