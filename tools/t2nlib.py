"""Shared helpers for the text2num verification machinery (see DESIGN.md §2.5/2.6)."""
import json, os, re, struct, subprocess, sys, time, hashlib

VERIF = os.path.dirname(os.path.dirname(os.path.abspath(__file__)))
REPO = "/repo"
BUILD = os.path.join(VERIF, ".build")
HARNESS_DIR = os.path.join(VERIF, "harness")
HARNESS_BIN = os.path.join(BUILD, "harness", "release", "t2n-harness")
# the same harness built WITHOUT debug assertions and overflow checks (profile `plain`)
# ... and WITHOUT `--cfg text2num_verif`: exactly the configuration a user of the crate compiles
HARNESS_PLAIN = os.path.join(BUILD, "harness-plain", "plain", "t2n-harness")
LEAN_DIR = os.environ.get("T2N_LEAN_DIR", os.path.join(VERIF, "lean"))
DRIVER_BIN = os.environ.get("T2N_DRIVER", os.path.join(LEAN_DIR, ".lake", "build", "bin", "t2n-driver"))
LANGS = ["en", "fr", "es", "pt", "it", "de", "nl"]

ENV = dict(os.environ, CARGO_NET_OFFLINE="true")


def sh(cmd, cwd=None, timeout=None, check=True, env=None):
    r = subprocess.run(cmd, shell=isinstance(cmd, str), cwd=cwd, capture_output=True, text=True,
                       timeout=timeout, env=env or ENV)
    if check and r.returncode != 0:
        raise RuntimeError("command failed: %s\n%s\n%s" % (cmd, r.stdout[-4000:], r.stderr[-4000:]))
    return r


def build_harness():
    """Rebuild the harness (and therefore /repo's current working tree, a path dependency)."""
    os.makedirs(BUILD, exist_ok=True)
    lock = os.path.join(HARNESS_DIR, "Cargo.lock")
    r = sh("cargo build --release --offline 2>&1", cwd=HARNESS_DIR, check=False)
    if r.returncode != 0:
        return False, r.stdout[-6000:]
    # RUSTFLAGS in the environment replaces build.rustflags of .cargo/config.toml: no --cfg text2num_verif in this build
    r = sh("RUSTFLAGS='-Aunexpected_cfgs -Adeprecated' cargo build --profile plain --offline --target-dir %s 2>&1"
           % os.path.join(BUILD, "harness-plain"), cwd=HARNESS_DIR, check=False)
    if r.returncode != 0:
        return False, r.stdout[-6000:]
    return True, ""


def build_lean(targets=None):
    t = " ".join(targets) if targets else ""
    r = sh("lake build %s 2>&1" % t, cwd=LEAN_DIR, check=False)
    return r.returncode == 0, r.stdout[-8000:]


def esc(s):
    out = []
    for b in s.encode("utf-8"):
        c = chr(b)
        if (c.isascii() and c.isalnum()) or c in "-'._":
            out.append(c)
        else:
            out.append("%%%02X" % b)
    return "".join(out)


def unesc(s):
    out = bytearray()
    i = 0
    bs = s.encode("ascii", "replace")
    while i < len(bs):
        if bs[i] == 0x25 and i + 2 < len(bs):
            out.append(int(bs[i + 1:i + 3], 16))
            i += 3
        else:
            out.append(bs[i])
            i += 1
    return out.decode("utf-8", "replace")


def f64bits(x):
    return "%016x" % struct.unpack("<Q", struct.pack("<d", x))[0]


def thr_bits(x):
    return f64bits(float(x))


_VAL = re.compile(r"(?<=[|:])(D[0-9]*(?:\.[0-9]*)?|R[0-9]+)(?=$|[|,@;])")


def _val_to_bits(m):
    t = m.group(1)
    try:
        if t[0] == "D":
            return f64bits(float(t[1:]))
        v = float(t[1:])
        return f64bits(1.0 / v if v != 0.0 else float("inf"))
    except (ValueError, OverflowError):
        return "BADVAL(" + t + ")"


def normalize_model_line(line):
    """Model answers carry exact decimal values (`D12.5`, `R16`); the implementation prints f64 bits.
    Python's float() is correctly rounded like Rust's str::parse::<f64>."""
    if "D" not in line and "R" not in line:
        return line
    return _VAL.sub(_val_to_bits, line)


def run_exec(binary, reqfile, outfile, args=("exec",), timeout=3600):
    with open(reqfile, "rb") as fin, open(outfile, "wb") as fout:
        r = subprocess.run([binary, *args], stdin=fin, stdout=fout, stderr=subprocess.PIPE, timeout=timeout)
    return r.returncode, r.stderr.decode("utf-8", "replace")[-2000:]


CC_TABLE = os.path.join(BUILD, "cc.tsv")


def ensure_cc_table(force=False):
    """The char-class table of the driver is dumped from Rust std by the harness (rebuilt with it)."""
    if force or not os.path.exists(CC_TABLE) or os.path.getmtime(CC_TABLE) < os.path.getmtime(HARNESS_BIN):
        with open(CC_TABLE + ".tmp", "wb") as f:
            subprocess.run([HARNESS_BIN, "cc-dump"], stdout=f, check=True)
        os.replace(CC_TABLE + ".tmp", CC_TABLE)
    return CC_TABLE


def run_both(reqfile, workdir, tag, binary=None):
    """Run implementation and model on the same request file; return (impl_lines, model_lines)."""
    a = os.path.join(workdir, tag + ".impl")
    b = os.path.join(workdir, tag + ".model")
    rc1, e1 = run_exec(binary or HARNESS_BIN, reqfile, a)
    rc2, e2 = run_exec(DRIVER_BIN, reqfile, b, args=("--cc", ensure_cc_table()))
    if rc1 != 0:
        raise RuntimeError("harness exec failed rc=%d: %s" % (rc1, e1))
    if rc2 != 0:
        raise RuntimeError("model driver failed rc=%d: %s" % (rc2, e2))
    with open(a, encoding="utf-8") as f:
        impl = f.read().split("\n")
    with open(b, encoding="utf-8") as f:
        model = [normalize_model_line(l) for l in f.read().split("\n")]
    if impl and impl[-1] == "":
        impl.pop()
    if model and model[-1] == "":
        model.pop()
    return impl, model


class SplitMix64:
    def __init__(self, seed):
        self.s = seed & 0xFFFFFFFFFFFFFFFF

    def next(self):
        self.s = (self.s + 0x9E3779B97F4A7C15) & 0xFFFFFFFFFFFFFFFF
        z = self.s
        z = ((z ^ (z >> 30)) * 0xBF58476D1CE4E5B9) & 0xFFFFFFFFFFFFFFFF
        z = ((z ^ (z >> 27)) * 0x94D049BB133111EB) & 0xFFFFFFFFFFFFFFFF
        return z ^ (z >> 31)

    def below(self, n):
        return self.next() % n

    def choice(self, xs):
        return xs[self.below(len(xs))]

    def chance(self, num, den):
        return self.below(den) < num


def char_laws():
    """Evaluate the char-class laws assumed by the text-level theorems on the table dumped from Rust std (request
    `laws` of the model driver; the checkers are proved sound in lean/T2N/Lemmas/CharLaws.lean). Cached per table
    content. Returns dict law -> bool."""
    import hashlib
    table = ensure_cc_table()
    h = hashlib.sha256(open(table, "rb").read() + open(DRIVER_BIN, "rb").read()).hexdigest()[:16]
    cache = os.path.join(BUILD, "laws_%s.txt" % h)
    if not os.path.exists(cache):
        r = subprocess.run([DRIVER_BIN, "--cc", table], input=b"laws\n", capture_output=True, timeout=600)
        out = r.stdout.decode("utf-8", "replace").strip()
        if r.returncode != 0 or "=" not in out:
            return {"<driver>": False}
        with open(cache, "w") as f:
            f.write(out)
    out = open(cache).read().strip()
    return {kv.split("=")[0]: kv.split("=")[1] == "1" for kv in out.split(" ") if "=" in kv}
