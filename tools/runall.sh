#!/bin/bash
# run every quick (or $1) check once; print one line per property
cd "$(dirname "$0")/.."
tier=${1:-quick}
rc_all=0
for p in C01 C02 C03 C04 C05 C06 C07 C08 C09 C10 C11 C12 C13 C14 C15 C16 C17 C18; do
  out=$(python3 tools/check.py $p --tier $tier 2>&1); rc=$?
  echo "$p rc=$rc $(echo "$out" | grep -E "^C[0-9]+ tier" | cut -c1-160) $(echo "$out" | grep -E "^VIOLATION" | cut -c1-120)"
  [ $rc -ne 0 ] && rc_all=1
done
exit $rc_all
