#!/usr/bin/env python3
"""Confirm a sub-agent mutation in its scratch worktree and import it into seeded/.
  python3 tools/import_mut.py <worktree> <seeded-id> <property> "<what>" [also_run ...]
Confirms: the patch is the worktree's diff; `cargo test --offline` passes with the change; the demo prints FAIL
(exit != 0) with the change and PASS (exit 0) without it.  Nothing is written to /repo."""
import json, os, shutil, subprocess, sys
VERIF = os.path.dirname(os.path.dirname(os.path.abspath(__file__)))
ENV = dict(os.environ, CARGO_NET_OFFLINE="true")


def sh(cmd, cwd):
    return subprocess.run(cmd, shell=True, capture_output=True, text=True, cwd=cwd, env=ENV)


def main():
    wt, sid, pid, what = sys.argv[1:5]
    also = sys.argv[5:]
    diff = sh("git diff -- src Cargo.toml", wt).stdout
    assert diff.strip(), "no source change in worktree"
    t = sh("cargo test --offline 2>&1 | grep -E '^test result' ", wt).stdout
    ok_tests = "136 passed; 0 failed" in t and "FAILED" not in t
    d1 = sh("cargo run --offline -q --release 2>&1 | tail -3; exit ${PIPESTATUS[0]}", os.path.join(wt, "demo"))
    with_rc = sh("cargo run --offline -q --release >/dev/null 2>&1; echo $?", os.path.join(wt, "demo")).stdout.strip()
    # (not `git stash`: the stash is shared by all worktrees of a repository)
    tmpd = os.path.join(wt, ".import_mut.diff")
    open(tmpd, "w").write(diff)
    assert sh("git apply -R --whitespace=nowarn .import_mut.diff", wt).returncode == 0
    try:
        without_rc = sh("cargo run --offline -q --release >/dev/null 2>&1; echo $?", os.path.join(wt, "demo")).stdout.strip()
        d2 = sh("cargo run --offline -q --release 2>&1 | tail -2", os.path.join(wt, "demo"))
    finally:
        assert sh("git apply --whitespace=nowarn .import_mut.diff", wt).returncode == 0
        os.unlink(tmpd)
    print("tests:", t.strip().replace("\n", " | "))
    print("demo with change rc=%s: %s" % (with_rc, d1.stdout.strip()[-300:]))
    print("demo without change rc=%s: %s" % (without_rc, d2.stdout.strip()[-200:]))
    confirmed = ok_tests and with_rc != "0" and without_rc == "0"
    print("CONFIRMED" if confirmed else "NOT CONFIRMED")
    if not confirmed:
        sys.exit(1)
    dst = os.path.join(VERIF, "seeded", sid)
    os.makedirs(dst, exist_ok=True)
    open(os.path.join(dst, "patch.diff"), "w").write(diff)
    if os.path.exists(os.path.join(dst, "demo")):
        shutil.rmtree(os.path.join(dst, "demo"))
    shutil.copytree(os.path.join(wt, "demo"), os.path.join(dst, "demo"), ignore=shutil.ignore_patterns("target", "Cargo.lock"))
    if os.path.exists(os.path.join(wt, "REPORT.md")):
        shutil.copy(os.path.join(wt, "REPORT.md"), dst)
    meta = {"kind": "sub-agent mutation (eighteenth batch, twelfth adversarial round)",
            "property_given": pid, "breaks": [pid], "also_run": also, "what": what,
            "confirmed": "in scratch worktree %s: `cargo test --offline` 136+7 pass with the change; demo exits %s with the change and 0 without (git apply -R)" % (wt, with_rc),
            "source": "independent sub-agent given only the property text, a scratch worktree and the list of code sites already used by earlier agents"}
    json.dump(meta, open(os.path.join(dst, "meta.json"), "w"), indent=1, ensure_ascii=False)
    print("imported", dst)


main()
