langs = [
 # code, Mod, extra card binder, extra card arg, decimal extra binder, decimal args (after thr h), mark, example words
 dict(c='en', M='En', cb='', ca='', db='', da='hds h9', mark="'.'"),
 dict(c='fr', M='Fr', cb='', ca='', db=' (hlen : (ds.dropWhile (· == 0)).length ≤ 12)', da='hds h9 hlen', mark="','"),
 dict(c='es', M='Es', cb='', ca='', db=' (hlen : (ds.dropWhile (· == 0)).length ≤ 12)', da='hds h9 hlen', mark="','"),
 dict(c='pt', M='Pt', cb='', ca='', db=' (hfr : T2N.Spec.Pt.digitsValue (ds.dropWhile (· == 0)) < 10 ^ 12)', da='hds h9 hfr', mark="','"),
 dict(c='it', M='It', cb='', ca='', db=' (hlen : (ds.dropWhile (· == 0)).length ≤ 12)', da='hds h9 hlen', mark="','"),
 dict(c='de', M='De', cb=' (hv : T2N.Spec.flag v (T2N.Spec.cp 2 5) = true ∧ T2N.Spec.flag v (T2N.Spec.cp 3 5) = true)', ca=' hv', db='', da='hv hds h9', mark="','", dfirst=True),
 dict(c='nl', M='Nl', cb='', ca='', db=' (hlen : (ds.dropWhile (· == 0)).length ≤ 12)', da='hds h9 hlen', mark="','"),
]
names = dict(en='English', fr='French', es='Spanish', pt='Portuguese', it='Italian', de='German', nl='Dutch')

hdr = '''/- C05, last clause — "a separator word with no number before it, or nothing usable after it, is left as a word".
   One block per language, all instances of the generic theorems of T2N/Lemmas/SepAlone.lean (task `c05sep`).

   For each of the seven languages `<l>` (separator word `Spec.<L>.sepWord`: en `point`, fr `virgule`, es `coma`,
   pt `vírgula`, it `virgola`, de/nl `komma`):

   1. `C05_sep_alone_<l>`            no number before the separator (only words that the parser refuses, or nothing):
                                      the occurrences are exactly those of what follows, scanned on its own and
                                      shifted; every occurrence starts after the separator token. EVERY threshold.
      `C05_sep_alone_texts_<l>`      the same on the texts, for the weaker hypothesis "not accepted by the fresh builder".
      `C05_sep_only_<l>`             the separator word alone: no occurrence.
      `C05_sep_then_number_<l>`      `sep <cardinal>` (threshold 0): the number alone, the separator stays a word.
   2. `C05_sep_nothing_after_<l>`    `<cardinal> sep w…` with `w…` refused by the parser (or nothing): the occurrences
                                      are those found when the input ends after the number. EVERY threshold.
      `C05_sep_nothing_after_zero_<l>`  at threshold 0: one occurrence, the integer alone; its span ends at the last word
                                      of the number (the separator token is outside); the text has no decimal mark.
      `C05_sep_nothing_after_texts_<l>` the texts.
   3. `C05_sep_twice_<l>`            `<n> sep <fraction> sep Y`: the second separator ends the decimal number, which is
                                      reported as if the input ended there; `Y` is scanned on its own. EVERY threshold.
      `C05_sep_twice_texts_<l>`      the texts.
   No counter-example was found: the seven interpreters behave alike. -/
import T2N.Props.C05
import T2N.Props.C07
import T2N.Props.C01
import T2N.Lemmas.SepAlone

set_option maxRecDepth 100000

namespace T2N.C05
open T2N T2N.Lift T2N.SepAlone

theorem sep_mem_en : T2N.En.lang ∈ allLangs := by simp [allLangs]
'''

tmpl = '''
/-! ## ——— {NAME} ——— -/

/-- **C05 (sep, {c}) clause 1**: `pre` consists of words that the {NAME} parser refuses in every state (possibly none),
then the separator word, then anything: for EVERY threshold the scanner reports exactly the occurrences of `post`
scanned on its own, shifted by the `2 * pre.length + 2` tokens before it; in particular no occurrence covers the
separator token (position `2 * pre.length`) and the separator after nothing never starts a decimal. -/
theorem C05_sep_alone_{c} (thr : Nat → Bool) (pre post : List Word) (hpre : ∀ w ∈ pre, T2N.{M}.lang.Rejects w) :
    ∃ ob, findNumbers (scanCfg T2N.{M}.lang thr) (wordTokens post) = .ok ob ∧
      findNumbers (scanCfg T2N.{M}.lang thr) (wordTokens (pre ++ [T2N.Spec.{M}.sepWord] ++ post)) =
        .ok (ob.map (shiftOcc (2 * pre.length + 2))) ∧
      ∀ o ∈ ob.map (shiftOcc (2 * pre.length + 2)), 2 * pre.length < o.start := by
  obtain ⟨ob, h1, h2⟩ := sep_alone T2N.{M}.lang {mem} T2N.C07.C07_langAgree_{c} thr T2N.Spec.{M}.sepWord rfl pre post
    (fun w hw => not_accepted_of_rejects _ _ (hpre w hw))
  refine ⟨ob, h1, h2, ?_⟩
  intro o ho
  have := shift_start _ _ o ho
  omega

/-- clause 1 on the texts, under the weaker hypothesis that no word of `pre` is accepted by the fresh builder -/
theorem C05_sep_alone_texts_{c} (thr : Nat → Bool) (pre post : List Word)
    (hpre : ∀ w ∈ pre, (T2N.{M}.lang.apply w DS.new).1 ≠ none) :
    occTexts T2N.{M}.lang thr (pre ++ [T2N.Spec.{M}.sepWord] ++ post) = occTexts T2N.{M}.lang thr post :=
  sep_alone_texts T2N.{M}.lang {mem} T2N.C07.C07_langAgree_{c} thr T2N.Spec.{M}.sepWord rfl pre post hpre

/-- the separator word alone is left as a word, whatever the threshold -/
theorem C05_sep_only_{c} (thr : Nat → Bool) : occTexts T2N.{M}.lang thr [T2N.Spec.{M}.sepWord] = some [] :=
  sep_only T2N.{M}.lang {mem} T2N.C07.C07_langAgree_{c} thr T2N.Spec.{M}.sepWord rfl

/-- `sep <cardinal>` (threshold 0): the number is found on its own — one occurrence starting at token 2 — and the
separator is kept as a word: a leading separator never starts a decimal `0{m}…` -/
theorem C05_sep_then_number_{c} (v : T2N.Spec.Var) (n : Nat) (h : n < 10 ^ 12){cb} :
    findNumbers (scanCfg T2N.{M}.lang zeroThr) (wordTokens ([T2N.Spec.{M}.sepWord] ++ T2N.Spec.{M}.cardinal v n)) =
      .ok [⟨2, 2 + (2 * (T2N.Spec.{M}.cardinal v n).length - 1), T2N.Spec.decChars n,
        .dec (T2N.Spec.decDigits n) [], false⟩] :=
  sep_then_number T2N.{M}.lang {mem} T2N.C07.C07_langAgree_{c} T2N.Spec.{M}.sepWord rfl _ n (phraseOk_{c} v n h{ca})

theorem C05_sep_then_number_texts_{c} (v : T2N.Spec.Var) (n : Nat) (h : n < 10 ^ 12){cb} :
    occTexts T2N.{M}.lang zeroThr ([T2N.Spec.{M}.sepWord] ++ T2N.Spec.{M}.cardinal v n) = some [T2N.Spec.decChars n] := by
  unfold occTexts
  rw [C05_sep_then_number_{c} v n h{ca}]
  rfl

/-- **C05 (sep, {c}) clause 2**: a spelled cardinal, the separator word, then words that the parser refuses in every
state (possibly none: end of the input) — for EVERY threshold the occurrences are exactly those found when the input
ends after the number: the separator does not attach to the number, and nothing else is found. -/
theorem C05_sep_nothing_after_{c} (v : T2N.Spec.Var) (n : Nat) (thr : Nat → Bool) (h : n < 10 ^ 12){cb}
    (post : List Word) (hpost : ∀ w ∈ post, T2N.{M}.lang.Rejects w) :
    findNumbers (scanCfg T2N.{M}.lang thr)
        (wordTokens (T2N.Spec.{M}.cardinal v n ++ [T2N.Spec.{M}.sepWord] ++ post)) =
      findNumbers (scanCfg T2N.{M}.lang thr) (wordTokens (T2N.Spec.{M}.cardinal v n)) := by
  have := nothing_after T2N.{M}.lang T2N.C07.C07_langAgree_{c} _ n (phraseOk_{c} v n h{ca}) thr []
    (T2N.Spec.{M}.sepWord :: post) (fun _ hw => by cases hw)
    (fun w hw => by
      rcases List.mem_cons.mp hw with rfl | hw
      · exact sep_stops_builtin T2N.{M}.lang {mem} _ rfl
      · exact Stops.of_rejects (hpost w hw))
  rw [List.nil_append] at this
  rw [List.append_assoc, List.singleton_append]
  exact this

/-- clause 2 at threshold 0: exactly one occurrence, the integer alone — tokens `0 … 2·len−2`, the separator (token
`2·len`) is outside the span — and its text contains no decimal mark -/
theorem C05_sep_nothing_after_zero_{c} (v : T2N.Spec.Var) (n : Nat) (h : n < 10 ^ 12){cb}
    (post : List Word) (hpost : ∀ w ∈ post, T2N.{M}.lang.Rejects w) :
    findNumbers (scanCfg T2N.{M}.lang zeroThr)
        (wordTokens (T2N.Spec.{M}.cardinal v n ++ [T2N.Spec.{M}.sepWord] ++ post)) =
      .ok [⟨0, 2 * (T2N.Spec.{M}.cardinal v n).length - 1, T2N.Spec.decChars n,
        .dec (T2N.Spec.decDigits n) [], false⟩] ∧
    T2N.Spec.{M}.decMark ∉ T2N.Spec.decChars n := by
  refine ⟨?_, (decChars_no_mark n).{mk}⟩
  rw [C05_sep_nothing_after_{c} v n zeroThr h{ca} post hpost]
  have := scan_phrase_zero T2N.{M}.lang T2N.C07.C07_langAgree_{c} _ n (phraseOk_{c} v n h{ca}) [] (fun _ hw => by cases hw)
  rw [List.nil_append] at this
  rw [this]
  simp

theorem C05_sep_nothing_after_texts_{c} (v : T2N.Spec.Var) (n : Nat) (h : n < 10 ^ 12){cb}
    (post : List Word) (hpost : ∀ w ∈ post, T2N.{M}.lang.Rejects w) :
    occTexts T2N.{M}.lang zeroThr (T2N.Spec.{M}.cardinal v n ++ [T2N.Spec.{M}.sepWord] ++ post) =
      some [T2N.Spec.decChars n] := by
  unfold occTexts
  rw [(C05_sep_nothing_after_zero_{c} v n h{ca} post hpost).1]
  rfl

/-- **C05 (sep, {c}) clause 3**: `<n> sep <fraction> sep Y` (hypotheses of `C05_decimal_{c}_occ_all`; `Y` any words) —
for EVERY threshold the second separator ends the decimal number, reported with the text `<n>{m}<fraction>` as if the
input ended there, the second separator is in no occurrence, and `Y` is scanned on its own (shifted). -/
theorem C05_sep_twice_{c} (v : T2N.Spec.Var) (n : Nat) (ds : List Nat) (thr : Nat → Bool) (h : n < 10 ^ 12){cbd}
    (hds : ds ≠ []) (h9 : ∀ d ∈ ds, d < 10){db} (Y : List Word) :
    ∃ a b ob, findNumbers (scanCfg T2N.{M}.lang thr) (wordTokens Y) = .ok ob ∧
      findNumbers (scanCfg T2N.{M}.lang thr)
        (wordTokens (T2N.Spec.{M}.cardinal v n ++ [T2N.Spec.{M}.sepWord] ++ T2N.Spec.{M}.fraction v ds ++
          [T2N.Spec.{M}.sepWord] ++ Y)) =
        .ok (⟨a, b, T2N.Spec.decChars n ++ [{mark}] ++ ds.map digitChar, .dec (T2N.Spec.decDigits n) ds, false⟩ ::
          ob.map (shiftOcc (2 * (T2N.Spec.{M}.cardinal v n ++ [T2N.Spec.{M}.sepWord] ++
            T2N.Spec.{M}.fraction v ds).length + 2))) := by
  obtain ⟨a0, b0, e0⟩ := C05_decimal_{c}_occ_all v n ds zeroThr h {da}
  obtain ⟨a, b, e1⟩ := C05_decimal_{c}_occ_all v n ds thr h {da}
  obtain ⟨ob, h1, h2⟩ := sep_twice T2N.{M}.lang {mem} T2N.C07.C07_langAgree_{c} thr T2N.Spec.{M}.sepWord rfl rfl rfl
    (T2N.Spec.{M}.cardinal v n ++ [T2N.Spec.{M}.sepWord] ++ T2N.Spec.{M}.fraction v ds) Y (by simp) _ _
    ⟨_, _, rfl, hds⟩ e0 e1
  exact ⟨a, b, ob, h1, h2⟩

theorem C05_sep_twice_texts_{c} (v : T2N.Spec.Var) (n : Nat) (ds : List Nat) (thr : Nat → Bool) (h : n < 10 ^ 12){cbd}
    (hds : ds ≠ []) (h9 : ∀ d ∈ ds, d < 10){db} (Y : List Word) :
    occTexts T2N.{M}.lang thr (T2N.Spec.{M}.cardinal v n ++ [T2N.Spec.{M}.sepWord] ++ T2N.Spec.{M}.fraction v ds ++
        [T2N.Spec.{M}.sepWord] ++ Y) =
      (occTexts T2N.{M}.lang thr Y).map ((T2N.Spec.decChars n ++ [{mark}] ++ ds.map digitChar) :: ·) := by
  obtain ⟨a, b, ob, h1, h2⟩ := C05_sep_twice_{c} v n ds thr h {da} Y
  unfold occTexts
  rw [h1, h2]
  dsimp only
  rw [List.map_cons, map_text_shift]
  rfl

/-- `{sepw} <5>` ↦ `5` (the separator stays a word); `<12> {sepw} foo` ↦ `12`; `<2> {sepw} <5> {sepw} <5>` ↦ `2{m}5`, `5`;
`<2> {sepw} <5> {sepw}` with every number "small" ↦ `2{m}5`. The hypotheses are satisfiable. -/
example : occTexts T2N.{M}.lang zeroThr ([T2N.Spec.{M}.sepWord] ++ T2N.Spec.{M}.cardinal (fun _ => {v0}) 5) =
    some [T2N.Spec.decChars 5] := C05_sep_then_number_texts_{c} _ 5 (by decide){exhv}

example : T2N.{M}.lang.Rejects w!"foo" := {rej}

example : occTexts T2N.{M}.lang zeroThr (T2N.Spec.{M}.cardinal (fun _ => {v0}) 12 ++ [T2N.Spec.{M}.sepWord] ++ [w!"foo"]) =
    some [T2N.Spec.decChars 12] :=
  C05_sep_nothing_after_texts_{c} _ 12 (by decide){exhv} [w!"foo"] (fun w hw => by
    have : w = w!"foo" := by simpa using hw
    subst this
    exact {rej})

example : occTexts T2N.{M}.lang zeroThr (T2N.Spec.{M}.cardinal (fun _ => {v0}) 2 ++ [T2N.Spec.{M}.sepWord] ++
    T2N.Spec.{M}.fraction (fun _ => {v0}) [5] ++ [T2N.Spec.{M}.sepWord] ++ T2N.Spec.{M}.cardinal (fun _ => {v0}) 5) =
    some [T2N.Spec.decChars 2 ++ [{mark}] ++ w!"5", T2N.Spec.decChars 5] := by
  rw [C05_sep_twice_texts_{c} _ 2 [5] zeroThr (by decide) {exda} _,
    phrase_texts T2N.{M}.lang T2N.C07.C07_langAgree_{c} _ 5 (phraseOk_{c} _ 5 (by decide){exhv})]
  rfl

example : occTexts T2N.{M}.lang (fun _ => true) (T2N.Spec.{M}.cardinal (fun _ => {v0}) 2 ++ [T2N.Spec.{M}.sepWord] ++
    T2N.Spec.{M}.fraction (fun _ => {v0}) [5] ++ [T2N.Spec.{M}.sepWord] ++ []) =
    some [T2N.Spec.decChars 2 ++ [{mark}] ++ w!"5"] := by
  rw [C05_sep_twice_texts_{c} _ 2 [5] (fun _ => true) (by decide) {exda} []]
  rfl

/-- clause 2 under a threshold: with every number "small", `<2> {sepw} foo` reports nothing — the lone `2` is left as
a word exactly as it is when the input ends after it (`C05_sep_nothing_after_{c}` + evaluation of `<2>` alone) -/
example : occTexts T2N.{M}.lang (fun _ => true)
    (T2N.Spec.{M}.cardinal (fun _ => {v0}) 2 ++ [T2N.Spec.{M}.sepWord] ++ [w!"foo"]) = some [] := by
  unfold occTexts
  rw [C05_sep_nothing_after_{c} _ 2 (fun _ => true) (by decide){exhv} [w!"foo"] (fun w hw => by
    have : w = w!"foo" := by simpa using hw
    subst this
    exact {rej})]
  have : occTexts T2N.{M}.lang (fun _ => true) (T2N.Spec.{M}.cardinal (fun _ => {v0}) 2) = some [] := by
    decide +kernel
  exact this
'''

out = hdr
for L in langs:
    d = dict(L)
    d['NAME'] = names[L['c']]
    d['mem'] = 'sep_mem_en' if L['c']=='en' else f"T2N.C01Sent.{L['M']}.mem_all"
    d['m'] = '.' if L['c']=='en' else ','
    d['mk'] = '2' if L['c']=='en' else '1'
    d['cbd'] = L['cb']
    d['v0'] = '1' if L['c']=='de' else '0'
    d['exhv'] = ' (by decide)' if L['c']=='de' else ''
    d['sepw'] = dict(en='point', fr='virgule', es='coma', pt='vírgula', it='virgola', de='komma', nl='komma')[L['c']]
    nd = len(L['da'].split())
    d['exda'] = ' '.join(['(by decide)']*nd)
    if L['c']=='es':
        d['rej'] = 'T2N.C01.C01_es_rejects_of_nan _ (by decide) (by decide) (by decide)'
    elif L['c']=='pt':
        d['rej'] = 'T2N.C01.C01_pt_rejects_of_nan _ (by decide) (by decide) (by decide)'
    else:
        d['rej'] = ('Lang.rejects_of_apply T2N.%s.lang _ (fun _ => ⟨.nan, rfl, by intro h; cases h⟩)\n'
                    '      (fun _ => ⟨.nan, rfl, by intro h; cases h⟩) rfl') % L['M']
    out += tmpl.format(**d)
out += "\nend T2N.C05\n"
open('/var/tmp/c05sep/lean/T2N/Props/C05/Sep.lean','w').write(out)
