#!/bin/bash
# Optional, not part of any check: measure which lines of /repo/src the QUICK tier of all 18 checks executes.
# Needs the nightly toolchain (llvm-tools). Output: a per-file table and the uncovered lines.   usage: tools/coverage.sh
set -e
W=/var/tmp/t2n-cov; rm -rf $W; mkdir -p $W/prof
rsync -a --exclude target /verif/harness/ $W/harness/
sed -i "s#target-dir = \"../.build/harness\"#target-dir = \"$W/target\"#; s#rustflags = \[\"--cfg\", \"text2num_verif\"#rustflags = [\"-C\", \"instrument-coverage\", \"--cfg\", \"text2num_verif\"#" $W/harness/.cargo/config.toml
(cd $W/harness && CARGO_NET_OFFLINE=true cargo +nightly build --release 2>&1 | tail -1)
cat > $W/run.py <<PY
import sys, os
sys.path.insert(0, '/verif/tools')
os.environ['LLVM_PROFILE_FILE'] = '$W/prof/%p-%m.profraw'
import t2nlib
t2nlib.HARNESS_BIN = '$W/target/release/t2n-harness'
t2nlib.build_harness = lambda: (True, '')
import check
check.proof_step = lambda pid, module, thorough: {"module": module, "built": True, "theorems": ["x"], "bad_axioms": {}, "forbidden": [], "log": ""}
sys.argv = ['check.py', sys.argv[1], '--tier', 'quick']
try:
    check.main()
except SystemExit:
    pass
PY
cd /verif
for p in C01 C02 C03 C04 C05 C06 C07 C08 C09 C10 C11 C12 C13 C14 C15 C16 C17 C18; do python3 $W/run.py $p > /dev/null 2>&1; done
git checkout evidence replay 2>/dev/null || true
T=$(dirname $(rustup +nightly which rustc))/../lib/rustlib/x86_64-unknown-linux-gnu/bin
$T/llvm-profdata merge -sparse $W/prof/*.profraw -o $W/all.profdata
$T/llvm-cov report $W/target/release/t2n-harness -instr-profile=$W/all.profdata --ignore-filename-regex='(\.cargo|rustc|harness/src)' 2>/dev/null | tail -16
echo "--- uncovered lines:"
$T/llvm-cov show $W/target/release/t2n-harness -instr-profile=$W/all.profdata --ignore-filename-regex='(\.cargo|rustc|harness/src)' 2>/dev/null | grep -E "^\s+[0-9]+\|\s+0\|" || true
rm -rf $W
