"""Request-stream generators (DESIGN.md §2.5). Every generator writes request lines to `out`
and returns the number of lines written. All randomness comes from one SplitMix64."""
import itertools, os, sys, zlib
sys.path.insert(0, os.path.dirname(os.path.abspath(__file__)))
from t2nlib import esc, SplitMix64, thr_bits, LANGS
import vocab


def dh(x):
    """deterministic hash (Python's hash() of str is salted per process)"""
    return zlib.crc32(repr(x).encode("utf-8"))

THRS = [float("nan"), float("-inf"), -1.0, 0.0, 0.5, 1.0, 5.0, 10.0, 10.5, 1e9, float("inf")]
THRS_SHORT = [0.0, 5.0, 10.0, float("inf"), float("nan")]

# ------------------------------------------------------------------------------------------------
# S-ds: the public DigitString API

DS_OPS = (["put:%s" % d for d in ["0", "1", "5", "10", "00", "205", "1000", "21", "9", "100"]] +
          ["at:%s:%d" % (d, p) for d in "15" for p in (0, 1, 2, 3, 5)] + ["at:0:1"] +
          ["sh:%d" % p for p in (0, 1, 2, 3, 4, 6, 9, 13)] +
          ["fput:%s" % d for d in ["7", "70", "0", "123", "0000"]] +
          ["push:%s" % d for d in ["3", "0", "45"]] + ["fr", "rs"])


def s_ds(tier, seed, out):
    n = 0
    depth = 3
    for k in range(1, depth + 1):
        for seq in itertools.product(DS_OPS, repeat=k):
            if k == 3 and tier != "thorough":
                # quick: the full cube is 60k lines; keep those whose first op is a successful builder op
                if seq[0] in ("fr", "rs") or seq[0].startswith("put:0"):
                    continue
                if dh(seq) % 4 != 0:
                    continue
            out.write("ds\t" + " ".join(seq) + "\n")
            n += 1
    rng = SplitMix64(seed)
    digs = "0123456789"
    for _ in range(4000 if tier != "thorough" else 60000):
        ops = []
        for _ in range(2 + rng.below(11)):
            r = rng.below(100)
            if r < 30:
                ln = 1 + rng.below(4)
                ds = "".join(rng.choice(digs) if rng.chance(1, 2) else "0" for _ in range(ln))
                ops.append("put:" + ds)
            elif r < 45:
                ops.append("at:%s:%d" % (rng.choice(digs), rng.below(9)))
            elif r < 70:
                ops.append("sh:%d" % rng.choice([0, 1, 2, 3, 3, 3, 6, 6, 9, 12, rng.below(15)]))
            elif r < 80:
                ops.append("fput:" + "".join(rng.choice(digs) for _ in range(1 + rng.below(3))))
            elif r < 88:
                ops.append("push:" + "".join(rng.choice(digs) for _ in range(1 + rng.below(2))))
            elif r < 93:
                ops.append("fr")
            elif r < 96:
                ops.append("rs")
            else:
                ops.append("setf:%d" % rng.below(64))
        out.write("ds\t" + " ".join(ops) + "\n")
        n += 1
    # stress: amounts no vocabulary word produces — long runs of one operation (counters, paddings), arguments wider
    # than any spelled number (compounds can stack multipliers beyond 10^15), far positions
    for rep in (7, 8, 17, 40, 255, 256, 257, 300):
        for op in ("put:0", "push:0", "fput:0"):
            for tail in (["put:7"], ["put:7", "sh:3"], ["push:5"], []):
                out.write("ds\t" + " ".join([op] * rep + tail) + "\n")
                n += 1
    for ln in (15, 16, 17, 18, 24, 40):
        for lead in ("1", "0", "9"):
            arg = lead + "0" * (ln - 1)
            for pre in ([], ["put:5"], ["put:0"]):
                for op in ("put:", "fput:", "push:"):
                    out.write("ds\t" + " ".join(pre + [op + arg, "sh:3"]) + "\n")
                    out.write("ds\t" + " ".join(pre + [op + arg[::-1]]) + "\n")
                    n += 2
    # dense long arguments (every digit non-zero, digit sums past 255 / 65 535, lengths around 2^8 and 2^16)
    for ln in sorted(set((15, 20, 28, 29, 30, 32, 40, 57, 64, 100, 255, 256, 257, 300, 1000, 7300, 66000) + tuple(_srcmine.sizes(41, 3000)))):
        args = [d * ln for d in "123456789"] + ["9" * (ln - 1) + "4", "".join(rng.choice("123456789") for _ in range(ln))]
        for arg in (args if ln <= 1000 else args[-4:]):
            for pre in ([], ["put:0"]):
                for op in ("put:", "fput:", "push:"):
                    out.write("ds\t" + " ".join(pre + [op + arg]) + "\n")
                    n += 1
    # positions / shifts / paddings of every big size mined from the source (srcmine.py; nothing on the unchanged tree)
    for big in _srcmine.sizes(3001, 2200000):
        for pre in ([], ["put:12"]):
            out.write("ds\t" + " ".join(pre + ["at:7:%d" % big]) + "\n")
            out.write("ds\t" + " ".join(pre + ["sh:%d" % big, "put:3"]) + "\n")
            n += 2
    # sizes past 16-bit limits, one operation each (the answer carries the whole rendering)
    for big in (65535, 65536, 70000):
        out.write("ds\tsh:%d\n" % big)
        out.write("ds\tat:3:%d\n" % big)
        out.write("ds\tput:5 sh:%d\n" % big)
        n += 3
    for pos in (15, 16, 17, 31, 64, 300):
        for pre in ([], ["put:12"], ["put:0", "put:0"]):
            out.write("ds\t" + " ".join(pre + ["at:3:%d" % pos, "sh:%d" % min(pos, 40)]) + "\n")
            out.write("ds\t" + " ".join(pre + ["sh:%d" % pos, "put:1"]) + "\n")
            n += 2
    return n


# ------------------------------------------------------------------------------------------------
# S-script: generic scanner code driven by the scripted interpreter

# token spec: (text, lower, nan, gap_before)
def _tk(text, nan=0, gap=0, dur=10):
    return (text, text, nan, gap, dur)


SCRIPT_ALPHA = [_tk("d5"), _tk("d3"), _tk("t2"), _tk("o3"), _tk("z"), _tk("h"), _tk("and"), _tk("pt"), _tk("lk"),
                _tk("w"), _tk(","), _tk("."), _tk(" "), _tk("-"),
                _tk("d5", nan=1), _tk("w", nan=1), _tk("d5", gap=1), _tk("d3", gap=1), _tk("w", gap=1),
                _tk("pt", gap=1), _tk("and", gap=1), _tk("o3", gap=1), _tk("z", gap=1), _tk(" . "),
                _tk("cj"), _tk("cj", gap=1), _tk(" ", nan=1), _tk("-", nan=1),
                # slow words: they last longer than the pause threshold, so "separated from the previous token" differs from
                # "separated from the token before the previous one"
                _tk("and", dur=150), _tk("pt", dur=150), _tk("cj", dur=150), _tk("lk", dur=150),
                _tk("e1"), _tk("e1", gap=1),
                # tokens with an empty text (a recogniser's silence marker), with and without the hint
                _tk(""), _tk("", nan=1), _tk("", gap=1),
                # a full stop glued to a closer, to a blank, doubled: only a token that trims to exactly "." is the period
                _tk(".\""), _tk(".)"), _tk(". "), _tk("..")]
SCRIPT_CORE = 39          # the first 39 kinds: every stream of <= 3 of them is enumerated; streams with a later kind are sampled
# runs of two and three of the same punctuation character (`--`, `---`, `,,`): one token each in a caller's stream
SCRIPT_ALPHA += [_tk("--"), _tk("---"), _tk(",,"), _tk("- -")]


def render_tokens(specs):
    """tokens as protocol text; times: each token lasts `dur` (default 10), contiguous unless gap (then +200)."""
    t = 0
    parts = []
    for sp in specs:
        text, lower, nan, gap = sp[:4]
        dur = sp[4] if len(sp) > 4 else 10
        if gap:
            t += 200
        parts.append("%s,%s,%d,%d,%d" % (esc(text), esc(lower), nan, t, t + dur))
        t += dur
    return " ".join(parts)


def s_script(tier, seed, out):
    n = 0
    full = 3 if tier != "thorough" else 4
    thrs = [0.0, 5.0, 10.0, float("nan")] if tier != "thorough" else [float("nan"), float("-inf"), 0.0, 0.5, 3.0, 5.0, 10.0, float("inf")]
    alpha = list(SCRIPT_ALPHA)
    for c in _srcmine.special_chars():          # + doubled / tripled characters mined from the source (srcmine.py)
        for t_ in (c, c * 2, c * 3):
            if all(t_ != a[0] for a in alpha):
                alpha.append(_tk(t_))
    core = set(range(SCRIPT_CORE))
    for k in range(0, full + 1):
        for idx in itertools.product(range(len(alpha)), repeat=k):
            # streams made of core kinds only: all of them; with a later kind: all up to length 2, a sixth of length 3 (thorough:
            # all of length 3, an eighth of length 4)
            if k >= 3 and not all(i in core for i in idx):
                keep_one_in = (6 if tier != "thorough" else 1) if k == 3 else 8
                if dh(idx) % keep_one_in != 0:
                    continue
            toks = render_tokens([alpha[i] for i in idx])
            for th in thrs:
                out.write("scan\tscript\t%s\t%s\n" % (thr_bits(th), toks))
                n += 1
    rng = SplitMix64(seed)
    for _ in range(20000 if tier != "thorough" else 300000):
        k = 4 + rng.below(9)
        seq = [rng.choice(alpha) for _ in range(k)]
        out.write("scan\tscript\t%s\t%s\n" % (thr_bits(rng.choice(THRS)), render_tokens(seq)))
        n += 1
    # streams whose length is a size mined from the source (srcmine.py)
    for sz in _srcmine.sizes(41, 5000):
        for seq in ([_tk("d5"), _tk(" ")] * (sz // 2) + [_tk("d3")] * (sz % 2), [_tk("w"), _tk(" ")] * (sz // 2 - 1) + [_tk("d5"), _tk("t2")],
                    [_tk("z")] * sz, [_tk("t2"), _tk("d5"), _tk(",")] * (sz // 3) + [_tk("w")] * (sz % 3)):
            for th in (0.0, 10.0):
                out.write("scan\tscript\t%s\t%s\n" % (thr_bits(th), render_tokens(seq)))
                n += 1
    return n


# ------------------------------------------------------------------------------------------------
# S-tok

TOK_ALPHA = ["a", "B", "7", "-", "'", ".", ",", " ", " ", "中", "\U0001F600", "é", "́", "\t"]


def s_tok(tier, seed, out):
    n = 0
    full = 4 if tier != "thorough" else 5
    for k in range(0, full + 1):
        for seq in itertools.product(TOK_ALPHA[:11], repeat=k):
            if k == full and tier != "thorough" and dh(seq) % 3 != 0:
                continue
            out.write("tok\t%s\n" % esc("".join(seq)))
            n += 1
    rng = SplitMix64(seed)
    pool = TOK_ALPHA + ["É", "ß", "İ", "ǅ", "Ǆ", "ﬁ", " ", "　", " ", "x", "Z", "0", "٣", "Ⅷ", "ª", "_"]
    # + one or two characters of every general category that could be special-cased: format (Cf: soft hyphen, ZWSP, ZWJ,
    # word joiner, BOM), controls, modifier letters/symbols, other numbers, private use, tag characters
    pool += ["\u00ad", "\u200b", "\u200d", "\u2060", "\ufeff", "\u0000", "\u0007", "\u001f", "\u007f", "\u0085",
             "\u02b0", "\u02c6", "\u00b2", "\u00bd", "\ue000", "\ufffd", "\U000e0001", "\u061c", "\u180e"]
    pool += [c for c in _srcmine.special_chars() + _srcmine.special_letters() if c not in pool]
    for _ in range(20000 if tier != "thorough" else 200000):
        s = "".join(rng.choice(pool) for _ in range(1 + rng.below(14)))
        out.write("tok\t%s\n" % esc(s))
        n += 1
    return n


# ------------------------------------------------------------------------------------------------
# word banks for the concrete languages

# ordinary (non-number) context words; the tail of each list holds awkward ones: digit-leading words (letters after a
# digit), and compounds made only of zero words (the interpreter's sub-group is then all leading zeros, empty buffer)
_ODD = ["2nd", "3D", "4x4", "5kg", "10h", "s", "e", "ss", "7", "34", "2023", "12-34",
        # numerals that are not ASCII digits (Unicode No / Nl / Nd): words like any other for the isolation rule
        "\u00bd", "\u00b2", "\u2460", "\u0663", "7\u00bd", "\u2167", "\u0967\u0968"]
_SEPWORDS = ["point", "virgule", "coma", "vírgula", "virgola", "komma"]
ORDINARY = {
    "en": ["cat", "dogs", "the", "house", "went", "Oscar", "s", "c"] + _ODD + ["zero-zero", "o-o", "nought-zero"],
    "fr": ["chat", "maison", "le", "la", "du", "un", "l'", "numéro", "avoir", "ami", "vélo"] + _ODD + ["zéro-zéro"],
    "es": ["gato", "casa", "el", "la", "tengo", "años"] + _ODD + ["cero-cero"],
    "pt": ["gato", "casa", "tenho", "anos", "os"] + _ODD + ["zero-zero"],
    "it": ["gatto", "casa", "il", "ho", "anni"] + _ODD + ["zerozero", "zero-zero"],
    "de": ["Katze", "Haus", "der", "ich", "habe", "eine", "Spur"] + _ODD + ["nullundnull", "nullnull"],
    "nl": ["kat", "huis", "de", "ik", "heb"] + _ODD + ["nulennul", "nulnul"],
}
# words of scripts without case: alphabetic, never a number word, never a linking word in these seven languages
CASELESS = ["\u6771\u4eac", "\u5927\u962a", "\u304b\u306a", "\ud55c\uad6d", "\u05e9\u05dc\u05d5\u05dd", "\u0633\u0644\u0627\u0645", "\u0928\u092e\u0938\u094d\u0924\u0947", "\u0e44\u0e17\u0e22", "\u4e00"]
for _l in ORDINARY:
    ORDINARY[_l] += CASELESS
# another language's decimal-separator word is an ordinary word (the facade must not know it)
# words with an apostrophe (elisions, clitics, possessives): one token each, never the bare article
_APOS = {"en": ["it's", "dog's", "o'clock"], "fr": ["l'eau", "l'ami", "d'accord", "qu'il", "aujourd'hui"], "es": ["d'Artagnan"],
         "pt": ["d'água"], "it": ["l'anno", "dell'anno", "un'ora"], "de": ["geht's"], "nl": ["'s", "zo'n"]}
for _l in ORDINARY:
    ORDINARY[_l] += _APOS[_l]
    # the same words typed with the typographic apostrophe (the tokenizer knows only the ASCII one)
    ORDINARY[_l] += [w.replace("'", "\u2019") for w in _APOS[_l][:2]]
_OWN = {"en": ["point"], "fr": ["virgule"], "es": ["coma"], "pt": ["vírgula"], "it": ["virgola"], "de": ["komma"], "nl": ["komma"]}
for _l in ORDINARY:
    ORDINARY[_l] += [w for w in _SEPWORDS if w not in _OWN[_l]]
SEPS = [" ", " ", " ", ", ", ". ", "; ", ": ", " - ", "-", " ", "  ", "\t", " . ", "! ", "? ", " (", ") ", "\n", ".", "\u00ad", " \u200b", "\ufeff ", "\u2060", "\u2010", "\u2011", "\u2013", "\u2014", "\u00b7", "\u2027", "/", "\u2026", " \u2013 ", "\u0001", " \u0000 ", "\u001f", "\u0008 ",
        "\u2019", " \u2018", "\u201d ", " \u201c", " \u00ab\u00a0", "\u00a0\u00bb ", "\u2032",
        # punctuation glued to punctuation (a full stop followed by a closer is one token, not a lone period)
        ".\" ", ".) ", ".\u00bb ", ".\u201d ", ".\u2019 ", " \".", " (.", "., ", ",. ", ".. ", " .) ", ".\u00a0", ". . ", "?! ", ".- ", " -. ",
        # medium-sized pads of blanks around punctuation and alone (between the short runs and the very long ones)
        " " * 8 + "." + " " * 8, " " * 9 + "," + " " * 9, " " * 12 + ";" + " " * 12, " " * 8 + "-" + " " * 8, " " * 5, " " * 16, " " * 33,
        "\u00a0" * 8 + "." + " " * 8, "\t" * 8 + "," + "\t" * 8,
        # format characters alone and between blanks
        "\ufeff", " \ufeff ", "\u200b ", " \u2060 ", "\u200d", " \u00ad ", "\u061c ", "\u180e "]
# source-directed probing (srcmine.py): every non-alphanumeric character written in a literal of the current source, as a
# separator alone, doubled and between blanks; every mined size as a run of blanks and as a pad around a full stop
import srcmine as _srcmine
for _c in _srcmine.special_chars():
    for _v in (_c, _c + " ", " " + _c, " " + _c + " ", _c + _c):
        if _v not in SEPS:
            SEPS.append(_v)
import vocab as _vocab
for _l in ORDINARY:              # word-like literals of the language-independent files: ordinary words of every language
    _own = set(x.lower() for x in _vocab.source_literals(_l))      # ... unless the language itself knows the word
    ORDINARY[_l] += [w for w in _srcmine.mine()["words"] if w not in ORDINARY[_l] and w.lower() not in _own]
for _c in _srcmine.special_letters():     # letters singled out by the code: inside, before and after ordinary words, and alone
    for _l in ORDINARY:
        ORDINARY[_l] += ["gold" + _c + "sh", _c + "at", "con" + _c, _c, _c + _c]
for _n in _srcmine.sizes(41, 300):
    SEPS += [" " * _n, " " * (_n // 2) + "." + " " * (_n - _n // 2 - 1)]
DECSEP = {"en": "point", "fr": "virgule", "es": "coma", "pt": "vírgula", "it": "virgola", "de": "Komma", "nl": "komma"}

_bank_cache = {}


def bank(lang):
    if lang in _bank_cache:
        return _bank_cache[lang]
    lits = [w for w in vocab.source_literals(lang) if w and " " not in w and not w.isdigit() and len(w) < 24]
    tw = [w for w in vocab.test_words(lang) if len(w) < 40]
    numwords = sorted(set(lits) | set(tw))
    b = {"num": numwords, "ord": ORDINARY[lang], "dec": DECSEP[lang], "tests": vocab.test_sentences(lang)}
    _bank_cache[lang] = b
    return b


def recase(rng, w):
    r = rng.below(10)
    if r < 6:
        return w
    if r < 8:
        return w.upper() if w.upper().lower() == w.lower() else w
    return w[:1].upper() + w[1:] if (w[:1].upper() + w[1:]).lower() == w.lower() else w


def random_words(rng, lang, k, phrases=None):
    b = bank(lang)
    ws = []
    for _ in range(k):
        r = rng.below(100)
        if phrases and r < 30:
            ws.extend(rng.choice(phrases).split(" "))
        elif r < 70:
            ws.append(rng.choice(b["num"]))
        elif r < 78:
            ws.append(b["dec"])
        elif r < 92:
            ws.append(rng.choice(b["ord"]))
        else:
            ws.append(rng.choice(["o", "neuf", "y", "e", "et", "and", "und", "en", "zero", "zéro", "null", "nul"]))
    return ws


def random_text(rng, lang, k, phrases=None):
    ws = random_words(rng, lang, k, phrases)
    parts = []
    for i, w in enumerate(ws):
        if i:
            # the pool of odd separators keeps growing: keep numbers of several words frequent
            parts.append(" " if rng.chance(2, 5) else rng.choice(SEPS))
        parts.append(recase(rng, w))
    if rng.chance(1, 6):
        parts.append(rng.choice(SEPS))
    if rng.chance(1, 8):
        parts.insert(0, rng.choice(SEPS))
    return "".join(parts)


def s_text(lang, tier, seed, out, prefix="", phrases=None, kinds=("text", "occ")):
    rng = SplitMix64(seed ^ dh(lang) & 0xFFFF)
    b = bank(lang)
    n = 0
    code = prefix + lang
    for t in b["tests"]:
        for th in (0.0, 10.0):
            for kind in kinds:
                out.write("%s\t%s\t%s\t%s\n" % (kind, code, thr_bits(th), esc(t)))
                n += 1
    for _ in range(6000 if tier != "thorough" else 100000):
        t = random_text(rng, lang, 1 + rng.below(9), phrases)
        th = rng.choice(THRS)
        for kind in kinds:
            out.write("%s\t%s\t%s\t%s\n" % (kind, code, thr_bits(th), esc(t)))
            n += 1
    # texts whose word count / number count is a size mined from the source (srcmine.py): z numbers in a row, z words of
    # dictation, z ordinary words before and after a number
    nums = [w for w in b["num"] if w.isalpha()][:12] or b["num"][:3]
    for z in _srcmine.sizes(41, 3000):
        w1, w2 = rng.choice(nums), rng.choice(nums)
        for t in ((w1 + ", ") * z + w2, " ".join(rng.choice(nums) for _ in range(z)), ("x " * z) + w1 + (" y" * z), (w1 + " " + w2 + ". ") * (z // 2)):
            for th in (0.0, 10.0):
                for kind in kinds:
                    out.write("%s\t%s\t%s\t%s\n" % (kind, code, thr_bits(th), esc(t)))
                    n += 1
    return n


def s_val(lang, tier, seed, out, prefix="", phrases=None):
    rng = SplitMix64(seed ^ 0x5151 ^ dh(lang) & 0xFFFF)
    b = bank(lang)
    n = 0
    code = prefix + lang
    for t in b["tests"] + ["", " ", "  \t", "-", "--", "a-", "-a", "- -", "'", " ", "é", "日本語"]:
        out.write("val\t%s\t%s\n" % (code, esc(t)))
        n += 1
    for _ in range(8000 if tier != "thorough" else 150000):
        ws = random_words(rng, lang, 1 + rng.below(6), phrases)
        sep = rng.choice([" ", " ", " ", "  ", "\t", " ", "\n"])
        t = sep.join(recase(rng, w) for w in ws)
        out.write("val\t%s\t%s\n" % (code, esc(t)))
        n += 1
    return n


def s_scan(lang, tier, seed, out, prefix="", phrases=None):
    """token streams with hints in a concrete language"""
    rng = SplitMix64(seed ^ 0x7777 ^ dh(lang) & 0xFFFF)
    n = 0
    code = prefix + lang
    for _ in range(5000 if tier != "thorough" else 80000):
        ws = random_words(rng, lang, 1 + rng.below(8), phrases)
        specs = []
        for w in ws:
            if rng.chance(1, 5):
                specs.append(_tk(rng.choice([" ", ",", ".", "-", ";", " . "]), nan=1 if rng.chance(1, 10) else 0, gap=1 if rng.chance(1, 12) else 0))
            text = recase(rng, w)
            specs.append((text, text.lower(), 1 if rng.chance(1, 12) else 0, 1 if rng.chance(1, 8) else 0, 150 if rng.chance(1, 6) else 10))
        th = thr_bits(rng.choice(THRS))
        out.write("scan\t%s\t%s\t%s\n" % (code, th, render_tokens(specs)))
        n += 1
        if n % 5 == 0:
            # the same stream through a token type that keeps the trait's DEFAULT hint methods
            out.write("scanp\t%s\t%s\t%s\n" % (code, th, render_tokens(specs)))
            n += 1
    return n


def s_lookup(tier, seed, out):
    n = 0
    alpha = "abcdefghijklmnopqrstuvwxyz"
    codes = [""] + list(alpha) + [a + b for a in alpha for b in alpha]
    codes += ["EN", "En", "eN", "FR", "Fr", "DE", "De", "ES", "IT", "NL", "PT", "Pt", "pT", "eng", "fra", "deu", "por",
              "en ", " en", "en-US", "pt-BR", "1", "12", "e1", "日本", "english", "x" * 50, "en\n", "é"]
    # every code wrapped in characters a caller's string may carry unnoticed (BOM, zero-width and soft characters, every kind
    # of blank, line ends, controls, quotes, punctuation), before, after, around and doubled; look-alike spellings
    affixes = ["\ufeff", "\u200b", "\u200c", "\u200d", "\u2060", "\u00ad", "\u00a0", "\u3000", "\u2028", "\u0085", "\t", "\n", "\r",
               "\r\n", "\u0000", "\u0001", "\u001f", "\u007f", ".", "-", "_", "/", "\"", "'", "\u2019", ",", ";", ":", "(", "\u0301", "\ufe0f"]
    affixes += [c for c in _srcmine.special_chars() + _srcmine.special_letters() if c not in affixes]
    for c in ("en", "fr", "es", "pt", "it", "de", "nl"):
        for x in affixes:
            codes += [x + c, c + x, x + c + x, x + x + c, c + x + x, c[0] + x + c[1]]
        codes += [c + c, c + "_" + c.upper(), c.upper() + "-" + c, c[0].upper() + c[1], c[0] + c[1].upper()]
    codes += ["\uff45\uff4e", "e\uff4e", "\u0131t", "\u0130t", "\u0130T", "e\u017f", "\ufb01", "\u0133", "d\u0435", "\u0435n", "n\u217c", "\u24d4\u24dd"]
    for c in codes:
        out.write("lookup\t%s\n" % esc(c))
        n += 1
    return n


def s_annot(tier, seed, out):
    """neighbour templates for the two annotators"""
    rng = SplitMix64(seed ^ 0x4242)
    n = 0
    en_n = ["o", "eight", "twenty", "first", "cat", ",", ".", "and", "hundred", "O", "zero", "thirty-one", "x-y", "-", "7", "\u0001", "s"]
    fr_n = ["neuf", "un", "le", "du", "l'", "numéro", "vingt", "cent", "chat", "virgule", "et", ",", ".", "dix-neuf", "vélo", "7", "34", "\u0001", "s"]
    ws_kinds = [" ", "  ", " ", "\t", " ", ""]
    for lang, pool in (("en", en_n), ("fr", fr_n)):
        for k in range(1, 4 if tier != "thorough" else 5):
            for seq in itertools.product(pool, repeat=k):
                if k >= 3 and (dh(seq) % (3 if tier != "thorough" else 1)) != 0 and tier != "thorough":
                    continue
                toks = []
                for i, w in enumerate(seq):
                    if i:
                        s = " "
                        toks.append("%s,%s" % (esc(s), esc(s)))
                    toks.append("%s,%s" % (esc(w), esc(w.lower())))
                out.write("annot\t%s\t%s\n" % (lang, " ".join(toks)))
                n += 1
        # two ambiguous words in one text, every neighbour drawn from the WHOLE vocabulary of the language (the passes
        # probe their neighbours with a scratch builder: any word class may leave something behind)
        vocab_all = [w for w in bank(lang)["num"] if w and " " not in w and len(w) < 20]
        # + hyphenated compounds of vocabulary words, the conjunction included (valid ones and ones that end mid-number)
        core = (["one", "two", "nine", "twenty", "ninety", "hundred", "thousand", "million", "and"] if lang == "en"
                else ["un", "deux", "neuf", "vingt", "cent", "mille", "million", "et", "dix"])
        vocab_all = vocab_all + ["-".join(rng.choice(core) for _ in range(4 + rng.below(5))) for _ in range(80)]
        cj = "and" if lang == "en" else "et"
        base = [w for w in vocab_all if w.isalpha()]
        vocab_all = vocab_all + [rng.choice(base) + "-" + cj for _ in range(40)] + [cj + "-" + rng.choice(base) for _ in range(20)] + \
            [rng.choice(base) + "-" + rng.choice(base) for _ in range(60)]
        amb = "o" if lang == "en" else "neuf"
        dets = ["the", "a", "x"] if lang == "en" else ["un", "le", "du", "l'", "mon"]
        for _ in range(6000 if tier != "thorough" else 80000):
            seq = []
            for _c in range(2):
                seq += [rng.choice(dets)]
                if rng.chance(1, 2):
                    seq += [rng.choice(["bon", "petit", "x"])]
                seq += [rng.choice(vocab_all) if rng.chance(2, 3) else rng.choice(pool), amb,
                        rng.choice(vocab_all) if rng.chance(2, 3) else rng.choice(pool)]
                if rng.chance(1, 2):
                    seq += [rng.choice(["chat", "cat", "dort", ".", ","])]
            toks = []
            for i, w in enumerate(seq):
                if i:
                    toks.append("%s,%s" % (esc(" "), esc(" ")))
                toks.append("%s,%s" % (esc(w), esc(w.lower())))
            out.write("annot\t%s\t%s\n" % (lang, " ".join(toks)))
            n += 1
        for _ in range(3000 if tier != "thorough" else 40000):
            k = 2 + rng.below(7)
            toks = []
            for i in range(k):
                if i:
                    s = rng.choice(ws_kinds)
                    if s:
                        toks.append("%s,%s" % (esc(s), esc(s)))
                w = rng.choice(pool)
                toks.append("%s,%s" % (esc(w), esc(w.lower())))
            out.write("annot\t%s\t%s\n" % (lang, " ".join(toks)))
            n += 1
    return n
