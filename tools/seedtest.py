#!/usr/bin/env python3
"""Apply each seeded change (seeded/<id>/patch.diff) to /repo, run the quick checks of the properties it is
meant to break (meta.json: breaks), undo it, and record which checks caught it.
  python3 tools/seedtest.py [id-prefix ...]      (never commits anything in /repo)"""
import json, os, subprocess, sys, time
VERIF = os.path.dirname(os.path.dirname(os.path.abspath(__file__)))
SEEDED = os.path.join(VERIF, "seeded")


def sh(cmd, **kw):
    return subprocess.run(cmd, shell=True, capture_output=True, text=True, **kw)


def main():
    want = sys.argv[1:]
    assert sh("git -C /repo status --porcelain").stdout.strip() == "", "/repo must be clean"
    summary = []
    for d in sorted(os.listdir(SEEDED)):
        if want and not any(d.startswith(w) for w in want):
            continue
        pd = os.path.join(SEEDED, d)
        patch = os.path.join(pd, "patch.diff")
        mp = os.path.join(pd, "meta.json")
        if not os.path.exists(patch) or not os.path.exists(mp):
            continue
        meta = json.load(open(mp, encoding="utf-8"))
        r = sh("git -C /repo apply --whitespace=nowarn %s" % patch)
        if r.returncode != 0:
            print(d, "PATCH DOES NOT APPLY", r.stderr[:200])
            summary.append((d, "no-apply"))
            continue
        try:
            res = {}
            for pid in meta.get("breaks", []) + meta.get("also_run", []):
                t0 = time.time()
                c = sh("python3 tools/check.py %s --tier quick" % pid, cwd=VERIF)
                lines = [l for l in c.stdout.split("\n") if l.startswith("VIOLATION")]
                res[pid] = {"rc": c.returncode, "violation_line": lines[0] if lines else "", "wall_s": round(time.time() - t0, 1),
                            "summary": (c.stdout.strip().split("\n")[-2:] + [c.stderr[-300:]])[0][:300]}
                if lines:
                    rp = lines[0].split("replay=")[1].split(" ")[0]
                    try:
                        rep = json.load(open(rp, encoding="utf-8"))
                        f = (rep.get("failures") or [{}])[0]
                        res[pid]["first_failure"] = {k: f.get(k) for k in ("input", "observed", "expected", "lang", "what") if k in f}
                    except Exception:
                        pass
            meta["checked"] = res
            meta["detected"] = any(v["rc"] == 1 for k, v in res.items() if k in meta.get("breaks", []))
        finally:
            sh("git -C /repo checkout -- .")
        json.dump(meta, open(mp, "w", encoding="utf-8"), indent=1, ensure_ascii=False)
        print(d, "DETECTED" if meta["detected"] else "MISSED", {k: (v["rc"], v["violation_line"][-60:]) for k, v in res.items()})
        summary.append((d, meta["detected"]))
    assert sh("git -C /repo status --porcelain").stdout.strip() == "", "/repo left dirty!"
    print("detected %d / %d" % (sum(1 for _, x in summary if x is True), len(summary)))


main()
