"""Source-directed probing: constants mined from the CURRENT non-test source of /repo (re-read on every run).

Every adversarial round showed the same pattern: a change that escapes introduces a *constant* -- a character it treats
specially (U+FEFF, U+2019, a closing quote), or a size at which it switches behaviour (256 bytes, 400 digits, 8 blanks,
32 bytes). Such a constant is written in the source. This module extracts every character and every number that occurs in
a literal of the non-test code; the stream and oracle generators put the characters where a character can matter
(separators, affixes of words, neighbours, lookup strings) and use the numbers as sizes (whitespace runs, pads, token
lengths, digit counts, argument lengths, token counts), each with its neighbours n-1, n+1 and small multiples.
On the unchanged tree the mined sets are small (numbers <= 63, ASCII punctuation and the ordinal markers)."""
import glob, os, re
import t2nlib

_CACHE = {}
MAX_NUM = 1 << 22

_CHAR_LIT = re.compile(r"'(\\u\{[0-9a-fA-F]{1,6}\}|\\x[0-9a-fA-F]{2}|\\.|[^'\\])'")
_STR_LIT = re.compile(r'b?"((?:[^"\\]|\\.)*)"')
_NUM_LIT = re.compile(r"(?<![\w.])(0x[0-9a-fA-F_]+|\d[\d_]*)(?:usize|isize|u8|u16|u32|u64|u128|i8|i16|i32|i64|f32|f64)?\b")


def _unescape(body):
    out, i = [], 0
    while i < len(body):
        c = body[i]
        if c == "\\" and i + 1 < len(body):
            n = body[i + 1]
            if n == "u" and i + 2 < len(body) and body[i + 2] == "{":
                j = body.index("}", i)
                try:
                    out.append(chr(int(body[i + 3:j].replace("_", ""), 16)))
                except ValueError:
                    pass
                i = j + 1
                continue
            if n == "x" and i + 3 < len(body):
                try:
                    out.append(chr(int(body[i + 2:i + 4], 16)))
                except ValueError:
                    pass
                i += 4
                continue
            out.append({"n": "\n", "t": "\t", "r": "\r", "0": "\0", "\\": "\\", "'": "'", '"': '"'}.get(n, n))
            i += 2
            continue
        out.append(c)
        i += 1
    return "".join(out)


def _code(path):
    s = open(path, encoding="utf-8").read().split("#[cfg(test)]")[0]
    s = re.sub(r"/\*.*?\*/", " ", s, flags=re.S)
    return re.sub(r"//[^\n]*", " ", s)


def mine():
    """-> {"chars": sorted list of characters that are neither letters nor digits, "nums": sorted list of ints in [2, 2^22],
           "strs": short non-vocabulary string literals}"""
    key = t2nlib.REPO
    if key in _CACHE:
        return _CACHE[key]
    chars, nums, strs, words, letters = set(), set(), set(), set(), set()
    for p in sorted(glob.glob(os.path.join(t2nlib.REPO, "src", "**", "*.rs"), recursive=True)):
        s = _code(p)
        for m in _STR_LIT.finditer(s):
            body = _unescape(m.group(1))
            if len(body) >= 2 and not any(c.isalnum() for c in body):     # pads, markers: their length is a size
                nums.add(len(body.encode("utf-8")))
                nums.add(len(body))
            for c in body:
                if not c.isalnum():
                    chars.add(c)
                elif not c.isascii() and os.sep + "lang" + os.sep not in p:
                    letters.add(c)           # a non-ASCII letter or digit named by the language-independent code
            if 0 < len(body) <= 6 and not body.isalnum():
                strs.add(body)
            # word-like literals of the language-independent files (a word singled out by the generic code)
            if os.sep + "lang" + os.sep not in p and 0 < len(body) <= 24 and any(c.isalnum() for c in body) \
                    and not any(c.isspace() or c in "{}%\t" for c in body):
                words.add(body)
        s2 = _STR_LIT.sub('""', s)
        for m in _CHAR_LIT.finditer(s2):
            c = _unescape(m.group(1))
            if len(c) == 1 and not c.isalnum():
                chars.add(c)
            elif len(c) == 1 and not c.isascii():
                letters.add(c)               # a non-ASCII letter or digit singled out in a char literal (a ligature, a numeral)
        s3 = _CHAR_LIT.sub("' '", s2)
        for m in _NUM_LIT.finditer(s3):
            t = m.group(1).replace("_", "")
            try:
                v = int(t, 16) if t.startswith("0x") else int(t)
            except ValueError:
                continue
            if 2 <= v <= MAX_NUM:
                nums.add(v)
            if t.startswith("0x") and v <= 0x10FFFF and not (0xD800 <= v <= 0xDFFF):
                c = chr(v)                       # a code point written as a number (`c as u32 == 0xFEFF`)
                if not c.isalnum():
                    chars.add(c)
        # constants written as expressions or implied by a type: `1 << 20`, `2usize.pow(16)`, `u16::try_from(..)`, `as u8`
        for m in re.finditer(r"\b(\d+)(?:usize|u32|u64|i32|i64)?\s*<<\s*(\d+)", s3):
            v = int(m.group(1)) << min(int(m.group(2)), 40)
            if 2 <= v <= MAX_NUM:
                nums.add(v)
        for m in re.finditer(r"\b(\d+)(?:_?(?:usize|u32|u64|i32|i64))?\s*\.\s*pow\(\s*(\d+)\s*\)", s3):
            v = int(m.group(1)) ** min(int(m.group(2)), 64)
            if 2 <= v <= MAX_NUM:
                nums.add(v)
        for ty, v in (("u8", 256), ("i8", 128), ("u16", 65536), ("i16", 32768)):
            if re.search(r"\b%s\b" % ty, s3):
                nums.add(v)
    chars.discard(" ")
    r = {"chars": sorted(chars), "nums": sorted(n for n in nums if 2 <= n <= MAX_NUM), "strs": sorted(strs), "words": sorted(words),
         "letters": sorted(letters)}
    _CACHE[key] = r
    return r


def sizes(lo=41, hi=70000):
    """sizes worth probing beyond the small ones every family enumerates anyway: each mined number n with n-1, n+1, 2n, 4n
    (and their neighbours), within [lo, hi]"""
    ns = mine()["nums"]
    out = set()
    for n in ns:
        for v in (n - 1, n, n + 1, 2 * n - 1, 2 * n, 2 * n + 1, 4 * n - 1, 4 * n, 4 * n + 1, n // 2 - 1, n // 2, n // 2 + 1):
            out.add(v)
    return sorted(v for v in out if lo <= v <= hi)


def special_chars():
    return mine()["chars"]


def special_letters():
    """non-ASCII letters / digits singled out by the code (char literals anywhere, strings of the language-independent files)"""
    return mine()["letters"]


if __name__ == "__main__":
    m = mine()
    print("chars:", [hex(ord(c)) for c in m["chars"]])
    print("nums:", m["nums"])
    print("strs:", m["strs"])
    print("words:", m["words"])
    print("letters:", m["letters"])
    print("sizes:", sizes())
