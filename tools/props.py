"""Property registry: which theorems, which correspondence streams and which oracles decide each property."""
import json, os, sys
sys.path.insert(0, os.path.dirname(os.path.abspath(__file__)))
import t2nlib, streams, gen_apply
from t2nlib import LANGS

TRUSTED_BASE = [
    "Lean 4.33.0 kernel (thorough tier: re-checked by leanchecker)",
    "axioms allowed in property theorems: propext, Classical.choice, Quot.sound (audited by #print axioms on every run)",
    "hand-written Lean model of the crate (lean/T2N/Model); tied to /repo by differential execution of harness (real code) vs t2n-driver (model) on the streams listed in this file",
    "Rust std (char classes, to_lowercase, str::parse::<f64>, Vec), daachorse, phf, bitflags: modelled, not verified",
    "tools/check.py, tools/props.py, tools/oracles.py, harness/src/*.rs",
]
ASSUMPTIONS = [
    "usize arithmetic never overflows and allocation never fails (positions < 2^32)",
    "the f64 of an occurrence is str::parse of its exact decimal reading (checked bit-for-bit by the correspondence)",
    "final-sigma lowercasing of U+03A3 is outside the model",
]


class Ctx:
    def __init__(self, pid, tier, seed, work):
        self.pid, self.tier, self.seed, self.work = pid, tier, seed, work
        self.samples = {}
        self._cache = {}

    def path(self, name):
        return os.path.join(self.work, name)


def _shrink_request(req, still_differs):
    """Generic shrinking of one request line: drop space-separated items of the last field."""
    fields = req.split("\t")
    items = fields[-1].split(" ")
    changed = True
    while changed and len(items) > 1:
        changed = False
        for i in range(len(items)):
            cand = items[:i] + items[i + 1:]
            r = "\t".join(fields[:-1] + [" ".join(cand)])
            if still_differs(r):
                items = cand
                changed = True
                break
    return "\t".join(fields[:-1] + [" ".join(items)])


def differs_one(ctx, req):
    p = ctx.path("one.req")
    with open(p, "w", encoding="utf-8") as f:
        f.write(req + "\n")
    impl, model = t2nlib.run_both(p, ctx.work, "one")
    return impl != model


def run_requests(ctx, tag, gen):
    """gen(out) writes request lines. Runs implementation and model, returns comparison stats."""
    reqp = ctx.path(tag + ".req")
    with open(reqp, "w", encoding="utf-8") as out:
        n = gen(out)
    impl, model = t2nlib.run_both(reqp, ctx.work, tag)
    reqs = open(reqp, encoding="utf-8").read().split("\n")
    if reqs and reqs[-1] == "":
        reqs.pop()
    dis = []
    if len(impl) != len(reqs) or len(model) != len(reqs):
        dis.append({"request": "<stream %s>" % tag, "impl": "lines=%d" % len(impl), "model": "lines=%d" % len(model)})
    for i, (a, b) in enumerate(zip(impl, model)):
        if a != b:
            if len(dis) < 200:
                dis.append({"request": reqs[i], "impl": a[:600], "model": b[:600]})
            else:
                dis.append(None)
    ndis = len(dis)
    dis = [d for d in dis if d is not None]
    # shrink the first few
    for d in dis[:3]:
        if d["request"].startswith("<"):
            continue
        try:
            small = _shrink_request(d["request"], lambda r: differs_one(ctx, r))
            d["shrunk"] = small
        except Exception as e:  # shrinking is best effort
            d["shrunk_error"] = str(e)
    ctx.samples.setdefault(tag, [])
    for i in (0, len(reqs) // 2, len(reqs) - 1):
        if 0 <= i < len(reqs) and i < len(impl):
            ctx.samples[tag].append({"request": reqs[i][:300], "answer": impl[i][:300]})
    ctx._cache[tag] = (reqs, impl, model)
    return {"requests": len(reqs), "disagreements": dis + [None] * 0, "n_disagreements": ndis,
            "distinct_answers": len(set(impl))}


def _multi(fs):
    def g(out):
        n = 0
        for f in fs:
            n += f(out)
        return n
    return g


def stream_gen(ctx, name):
    tier, seed = ctx.tier, ctx.seed
    if name == "ds":
        return lambda o: streams.s_ds(tier, seed, o)
    if name == "script":
        return lambda o: streams.s_script(tier, seed, o)
    if name == "tok":
        return lambda o: streams.s_tok(tier, seed, o)
    if name == "lookup":
        return lambda o: streams.s_lookup(tier, seed, o)
    if name == "annot":
        return lambda o: streams.s_annot(tier, seed, o)
    if name.startswith("apply:"):
        lang = name.split(":")[1]
        sample = (1, 4) if tier != "thorough" else None
        return lambda o: gen_apply.gen(lang, tier, seed, o, sample=sample)[0]
    if name.startswith("applyface:"):
        lang = name.split(":")[1]
        return lambda o: gen_apply.gen(lang, "quick", seed, o, target="L:", sample=(1, 12))[0]
    if name.startswith("text:"):
        _, lang = name.split(":")
        return lambda o: streams.s_text(lang, tier, seed, o)
    if name.startswith("textface:"):
        _, lang = name.split(":")
        return _multi([lambda o: streams.s_text(lang, "quick", seed, o, prefix="L:"),
                       lambda o: streams.s_text(lang, "quick", seed + 1, o, prefix="G:", kinds=("text",)),
                       lambda o: streams.s_val(lang, "quick", seed, o, prefix="L:"),
                       lambda o: streams.s_scan(lang, "quick", seed, o, prefix="L:")])
    if name.startswith("val:"):
        _, lang = name.split(":")
        return lambda o: streams.s_val(lang, tier, seed, o)
    if name.startswith("scan:"):
        _, lang = name.split(":")
        return lambda o: streams.s_scan(lang, tier, seed, o)
    raise KeyError(name)


def run_stream(ctx, name):
    return run_requests(ctx, name.replace(":", "_"), stream_gen(ctx, name))


def run_oracle(ctx, name, focus=None):
    import oracles
    fn = getattr(oracles, "oracle_" + name)
    return fn(ctx, focus or [])


def replay(pid, path, work):
    """Re-execute the recorded requests on the current implementation and model."""
    data = json.load(open(path, encoding="utf-8"))
    reqs = []
    for f in data.get("failures", []):
        reqs.extend(f.get("requests", []))
    for d in data.get("correspondence_disagreements", []):
        reqs.append(d.get("shrunk") or d["request"])
    p = os.path.join(work, "replay.req")
    with open(p, "w", encoding="utf-8") as f:
        for r in reqs:
            f.write(r + "\n")
    impl, model = t2nlib.run_both(p, work, "replay")
    for r, a, b in zip(reqs, impl, model):
        print("REQ  ", r)
        print("IMPL ", a)
        print("MODEL", b)
    if data.get("kind") == "tie-broken":
        print("proof status recorded:", json.dumps(data.get("proof"), ensure_ascii=False)[:2000])
    for f in data.get("failures", []):
        print("FAILURE", json.dumps({k: v for k, v in f.items() if k != "requests"}, ensure_ascii=False)[:1000])


def all_langs(prefix):
    return [prefix + ":" + l for l in LANGS]


def _apply_all():
    return all_langs("apply")


PROPS = {
    "C01": dict(module="T2N.Props.C01", streams=_apply_all() + ["ds"], oracles=["c01"]),
    "C02": dict(module="T2N.Props.C02", streams=["script", "tok", "text:en", "text:fr", "text:de"], oracles=["c02"]),
    "C03": dict(module="T2N.Props.C03", streams=["ds", "script", "tok", "val:en", "val:it"], oracles=["c03"]),
    "C04": dict(module="T2N.Props.C04", streams=_apply_all(), oracles=["c04"]),
    "C05": dict(module="T2N.Props.C05", streams=_apply_all() + ["script"], oracles=["c05"]),
    "C06": dict(module="T2N.Props.C06", streams=["script"] + all_langs("scan"), oracles=["c06"]),
    "C07": dict(module="T2N.Props.C07", streams=_apply_all() + ["ds", "script", "scan:en", "scan:nl"], oracles=["c07"]),
    "C08": dict(module="T2N.Props.C08", streams=_apply_all(), oracles=["c08"]),
    "C09": dict(module="T2N.Props.C09", streams=["script", "scan:en", "scan:fr"], oracles=["c09"]),
    "C10": dict(module="T2N.Props.C10", streams=["script", "annot", "text:fr", "text:en"], oracles=["c10"]),
    "C11": dict(module="T2N.Props.C11", streams=all_langs("scan") + ["text:en", "text:de"], oracles=["c11"]),
    "C12": dict(module="T2N.Props.C12", streams=["ds"], oracles=["c12"]),
    "C13": dict(module="T2N.Props.C13", streams=["lookup"] + all_langs("applyface") + all_langs("textface"), oracles=["c13"]),
    "C14": dict(module="T2N.Props.C14", streams=["text:nl", "text:it"], oracles=["c14"]),
    "C15": dict(module="T2N.Props.C15", streams=["script", "scan:en", "scan:de", "scan:fr"], oracles=["c15"]),
    "C16": dict(module="T2N.Props.C16", streams=_apply_all(), oracles=["c16"]),
    "C17": dict(module="T2N.Props.C17", streams=["tok", "annot", "text:en", "val:en", "val:fr"], oracles=["c17"]),
    "C18": dict(module="T2N.Props.C18", streams=["annot", "text:en", "scan:en"], oracles=["c18"]),
}
