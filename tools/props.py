"""Property registry: which theorems, which correspondence streams and which oracles decide each property."""
import json, os, sys
sys.path.insert(0, os.path.dirname(os.path.abspath(__file__)))
import t2nlib, streams, gen_apply
from t2nlib import LANGS

TRUSTED_BASE = [
    "Lean 4.33.0 kernel (thorough tier: re-checked by leanchecker)",
    "axioms allowed in property theorems: propext, Classical.choice, Quot.sound (audited by #print axioms on every run)",
    "hand-written Lean model of the crate (lean/T2N/Model); tied to /repo by differential execution of harness (real code) vs t2n-driver (model) on the streams listed in this file",
    "Rust std (char classes, to_lowercase, str::parse::<f64>, Vec), daachorse, phf, bitflags: modelled, not verified",
    "tools/check.py, tools/props.py, tools/oracles.py, harness/src/*.rs",
]
ASSUMPTIONS = [
    "usize arithmetic never overflows and allocation never fails (positions < 2^32)",
    "the f64 of an occurrence is str::parse of its exact decimal reading (checked bit-for-bit by the correspondence)",
    "final-sigma lowercasing of U+03A3 is outside the model",
]


class Ctx:
    def __init__(self, pid, tier, seed, work):
        self.pid, self.tier, self.seed, self.work = pid, tier, seed, work
        self.samples = {}
        self._cache = {}

    def path(self, name):
        return os.path.join(self.work, name)


def _shrink_request(req, still_differs, budget=80):
    """Generic shrinking of one request line: drop space-separated items of the last field (delta debugging: halves, quarters,
    ... single items), within a budget of evaluations -- requests of thousands of tokens must not cost minutes."""
    fields = req.split("\t")
    items = fields[-1].split(" ")
    join = lambda its: "\t".join(fields[:-1] + [" ".join(its)])
    n = 2
    while len(items) > 1 and budget > 0:
        chunk = max(1, len(items) // n)
        removed = False
        for i in range(0, len(items), chunk):
            cand = items[:i] + items[i + chunk:]
            if not cand:
                continue
            budget -= 1
            if budget < 0:
                break
            if still_differs(join(cand)):
                items, n, removed = cand, max(n - 1, 2), True
                break
        if not removed:
            if chunk == 1:
                break
            n = min(len(items), n * 2)
    return join(items)


def differs_one(ctx, req, binary=None):
    p = ctx.path("one.req")
    with open(p, "w", encoding="utf-8") as f:
        f.write(req + "\n")
    impl, model = t2nlib.run_both(p, ctx.work, "one", binary=binary)
    return impl != model


def _plain_equal(la, lb):
    """answers of the build without debug assertions vs the model: equal, except where the model answers `P` (a debug
    assertion of the code fires: `is_range_free(a >= b)` in the `ds` queries) -- there that build may answer anything."""
    return la == lb or (len(la) == len(lb) and all(x == y or y == "P" for x, y in zip(la, lb)))


PLAIN_CAP = 60000
PLAIN_STRIDE = 37


def run_requests(ctx, tag, gen):
    """gen(out) writes request lines. Runs implementation and model and compares them line by line
    (streaming: the thorough streams have tens of millions of lines)."""
    reqp = ctx.path(tag + ".req")
    with open(reqp, "w", encoding="utf-8") as out:
        gen(out)
    a = os.path.join(ctx.work, tag + ".impl")
    b = os.path.join(ctx.work, tag + ".model")
    rc1, e1 = t2nlib.run_exec(t2nlib.HARNESS_BIN, reqp, a)
    rc2, e2 = t2nlib.run_exec(t2nlib.DRIVER_BIN, reqp, b, args=("--cc", t2nlib.ensure_cc_table()))
    aborted = []
    guard = 0
    while rc1 != 0 and guard < 20:
        # the harness process died (stack overflow, abort): the first unanswered request is the culprit; answer it
        # `ABORT` and run the rest
        guard += 1
        with open(a, "rb") as fa_:
            data = fa_.read()
        done = data.count(b"\n")
        with open(a, "wb") as fa_:
            fa_.write(data[:data.rfind(b"\n") + 1] if done else b"")
            fa_.write(("ABORT rc=%d\n" % rc1).encode())
        with open(reqp, encoding="utf-8") as fr_:
            all_reqs = fr_.read().split("\n")
        aborted.append(all_reqs[done] if done < len(all_reqs) else "?")
        rest = all_reqs[done + 1:]
        restp = reqp + ".rest"
        with open(restp, "w", encoding="utf-8") as fr_:
            fr_.write("\n".join(rest))
        rc1, e1 = t2nlib.run_exec(t2nlib.HARNESS_BIN, restp, a + ".rest")
        with open(a, "ab") as fa_, open(a + ".rest", "rb") as fb_:
            fa_.write(fb_.read())
        os.unlink(restp)
        os.unlink(a + ".rest")
    if rc1 != 0:
        raise RuntimeError("harness exec failed rc=%d: %s" % (rc1, e1))
    if rc2 != 0:
        raise RuntimeError("model driver failed rc=%d: %s" % (rc2, e2))
    dis, ndis, n = [], 0, 0
    distinct = set()
    keep = tag == "script" or tag == "ds" or tag == "lookup" or tag.startswith("scan_")
    reqs_k, impl_k = [], []
    samples = []
    plain_rq, plain_lb = [], []
    with open(reqp, encoding="utf-8") as fr, open(a, encoding="utf-8") as fa, open(b, encoding="utf-8") as fb:
        for rq in fr:
            rq = rq.rstrip("\n")
            la = fa.readline()
            lb = fb.readline()
            if la == "" or lb == "":
                dis.append({"request": "<stream %s>" % tag, "impl": "truncated output" if la == "" else "ok", "model": "truncated output" if lb == "" else "ok"})
                ndis += 1
                break
            la = la.rstrip("\n")
            lb = t2nlib.normalize_model_line(lb.rstrip("\n"))
            n += 1
            if len(distinct) < 2000000:
                distinct.add(hash(la))
            if keep:
                reqs_k.append(rq)
                impl_k.append(la)
            if n in (1, 1000, 100000):
                samples.append({"request": rq[:300], "answer": la[:300]})
            if la != lb:
                ndis += 1
                if len(dis) < 200:
                    dis.append({"request": rq, "impl": la[:600], "model": lb[:600]})
            elif len(plain_rq) < PLAIN_CAP and (n <= 4000 or n % PLAIN_STRIDE == 0):
                plain_rq.append(rq)
                plain_lb.append(lb)
    # the build without debug assertions (code inside `debug_assert!` is not executed there) answers a sample of the
    # same requests; the model's answers are the reference again
    nplain = 0
    if plain_rq and os.path.exists(t2nlib.HARNESS_PLAIN):
        pr, pa = reqp + ".plain", a + ".plain"
        with open(pr, "w", encoding="utf-8") as f:
            f.write("\n".join(plain_rq) + "\n")
        rc3, e3 = t2nlib.run_exec(t2nlib.HARNESS_PLAIN, pr, pa)
        with open(pa, encoding="utf-8") as f:
            got = f.read().split("\n")
        for i, rq in enumerate(plain_rq):
            la = got[i] if i < len(got) - (0 if rc3 == 0 else 1) else "ABORT rc=%d" % rc3
            nplain += 1
            if la != "NOHOOK" and not _plain_equal(la, plain_lb[i]):
                ndis += 1
                if len(dis) < 200:
                    dis.append({"request": rq, "impl": la[:600], "model": plain_lb[i][:600], "build": "no-debug-assertions"})
            if la.startswith("ABORT"):
                break
        for f_ in (pr, pa):
            try:
                os.unlink(f_)
            except OSError:
                pass
    ctx.plain_requests = getattr(ctx, "plain_requests", 0) + nplain
    for d in sorted(dis, key=lambda d_: len(d_["request"]))[:3]:
        if d["request"].startswith("<"):
            continue
        try:
            hb = t2nlib.HARNESS_PLAIN if d.get("build") else None
            d["shrunk"] = _shrink_request(d["request"], lambda r: differs_one(ctx, r, hb))
        except Exception as e:  # shrinking is best effort
            d["shrunk_error"] = str(e)
    ctx.samples.setdefault(tag, []).extend(samples)
    if keep:
        ctx._cache[tag] = (reqs_k, impl_k, None)
    for f in (a, b, reqp):
        try:
            os.unlink(f)
        except OSError:
            pass
    return {"requests": n, "disagreements": dis, "n_disagreements": ndis, "distinct_answers": len(distinct)}


def _multi(fs):
    def g(out):
        n = 0
        for f in fs:
            n += f(out)
        return n
    return g


def stream_gen(ctx, name):
    tier, seed = ctx.tier, ctx.seed
    if name == "ds":
        return lambda o: streams.s_ds(tier, seed, o)
    if name == "script":
        return lambda o: streams.s_script(tier, seed, o)
    if name == "tok":
        return lambda o: streams.s_tok(tier, seed, o)
    if name == "lookup":
        return lambda o: streams.s_lookup(tier, seed, o)
    if name == "annot":
        return lambda o: streams.s_annot(tier, seed, o)
    if name.startswith("apply:"):
        lang = name.split(":")[1]
        sample = (1, 4) if tier != "thorough" else None
        return lambda o: gen_apply.gen(lang, tier, seed, o, sample=sample)[0]
    if name.startswith("applyface:"):
        lang = name.split(":")[1]
        return lambda o: gen_apply.gen(lang, "quick", seed, o, target="L:", sample=(1, 12))[0]
    if name.startswith("text:"):
        _, lang = name.split(":")
        return lambda o: streams.s_text(lang, tier, seed, o)
    if name.startswith("textface:"):
        _, lang = name.split(":")
        return _multi([lambda o: streams.s_text(lang, "quick", seed, o, prefix="L:"),
                       lambda o: streams.s_text(lang, "quick", seed + 1, o, prefix="G:", kinds=("text",)),
                       lambda o: streams.s_val(lang, "quick", seed, o, prefix="L:"),
                       lambda o: streams.s_scan(lang, "quick", seed, o, prefix="L:")])
    if name.startswith("val:"):
        _, lang = name.split(":")
        return lambda o: streams.s_val(lang, tier, seed, o)
    if name.startswith("scan:"):
        _, lang = name.split(":")
        import oracles
        return lambda o: streams.s_scan(lang, tier, seed, o, phrases=oracles.phrase_bank(ctx, lang))
    if name.startswith("fmt:"):
        lang = name.split(":")[1]
        return lambda o: gen_apply.gen(lang, tier, seed, o, only_fmt=True)[0]
    if name.startswith("pfx:"):
        _, lang = name.split(":")
        return lambda o: s_prefix(ctx, lang, o)
    raise KeyError(name)


def s_prefix(ctx, lang, out):
    """Prefix closure: every proper or full prefix of a spelled number (from the Lean speller: boundary numbers, the
    longest spellings, random large numbers, some ordinals) followed by EVERY multiplier / scale / conjunction /
    separator / zero word of the language and a sample of the rest of the vocabulary — validated and scanned. This reaches
    the builder states real numbers pass through, and the refusals right after them."""
    import oracles, re
    from t2nlib import SplitMix64, esc, unesc
    rng = SplitMix64(ctx.seed * 31337 + len(lang) + ord(lang[1]))
    nums = oracles.long_numbers(ctx, lang)[:: 6 if ctx.tier != "thorough" else 1]
    nums += [a * 10 ** 3 + b for a in oracles.BOUNDARY[::6] for b in oracles.BOUNDARY[::7]]
    for _ in range(120 if ctx.tier != "thorough" else 20000):
        g = [rng.below(1000) if rng.chance(2, 3) else rng.choice([0, 1, 10, 12, 100, 101, 512, 999]) for _ in range(4)]
        nums.append((g[0] * 10 ** 9 + g[1] * 10 ** 6 + g[2] * 10 ** 3 + g[3]) % 10 ** 12)
    gl = ["gen\tcard\t%s\t%d\t%d" % (lang, n_, rng.below(10 ** 6) if rng.chance(1, 2) else 0) for n_ in nums]
    ordmax, ninfl = oracles.ORD_SPEC[lang]
    gl += ["gen\tord\t%s\t%d\t0\t%d" % (lang, 1 + rng.below(ordmax), rng.below(ninfl)) for _ in range(40 if ctx.tier != "thorough" else 2000)]
    phrases = [unesc(ph) for (g, ph, e) in oracles._spec_cases(ctx, "pfx" + lang, gl)]
    words = [w for w in streams.bank(lang)["num"] if w and " " not in w]
    key = [w for w in words if re.search(r"illi|ilj|ilh|ilh|thousand|tausend|duizend|^mil$|^mille$|^mila$|hundred|hundert|honderd|^cent|^cem$|^cien|^and$|^et$|^und$|^en$|^y$|^e$|zero|z\u00e9ro|cero|null?$|^o$|nought", w)]
    key += [streams.DECSEP[lang].lower()]
    n = 0
    for ph in phrases:
        ws = ph.split(" ")
        for k in range(1, len(ws) + 1):
            pre = " ".join(ws[:k])
            nxt = key + [rng.choice(words) for _ in range(3)]
            for w in nxt:
                t = pre + " " + w
                out.write("val\t%s\t%s\n" % (lang, esc(t)))
                n += 1
                if k == len(ws) or rng.chance(1, 4):
                    out.write("occ\t%s\t%s\t%s\n" % (lang, "0000000000000000", esc(t + " x")))
                    n += 1
    return n


def run_stream(ctx, name):
    return run_requests(ctx, name.replace(":", "_"), stream_gen(ctx, name))


def run_oracle(ctx, name, focus=None):
    import oracles
    fn = getattr(oracles, "oracle_" + name)
    return fn(ctx, focus or [])


def replay(pid, path, work):
    """Re-execute the recorded requests on the current implementation and model."""
    data = json.load(open(path, encoding="utf-8"))
    reqs = []
    for f in data.get("failures", []):
        reqs.extend(f.get("requests", []))
    for d in data.get("correspondence_disagreements", []):
        reqs.append(d.get("shrunk") or d["request"])
    p = os.path.join(work, "replay.req")
    with open(p, "w", encoding="utf-8") as f:
        for r in reqs:
            f.write(r + "\n")
    impl, model = t2nlib.run_both(p, work, "replay")
    for r, a, b in zip(reqs, impl, model):
        print("REQ  ", r)
        print("IMPL ", a)
        print("MODEL", b)
    if data.get("kind") == "tie-broken":
        print("proof status recorded:", json.dumps(data.get("proof"), ensure_ascii=False)[:2000])
    for f in data.get("failures", []):
        print("FAILURE", json.dumps({k: v for k, v in f.items() if k != "requests"}, ensure_ascii=False)[:1000])


# properties whose text-level theorems assume laws about the char classes; the laws are evaluated on Rust's tables
LAWS = {
    "C01": ["C01Text.TextLaws", "C01Text.AlphaLaws", "SpaceWs"],
    "C10": ["SpaceWs"],
    "C11": ["C11.CaseLaws", "C11.Recasing.asciiUpper", "C11.Recasing.asciiLower"],
    "C15": ["CommaChar"],
    "C17": ["WsLaws", "LowerWs", "LowerWsNe"] + ["SepInert." + l for l in LANGS] + ["C17.TextLaws." + l for l in LANGS],
    "C18": ["SpaceWs"],
}


def all_langs(prefix):
    return [prefix + ":" + l for l in LANGS]


def _apply_all():
    return all_langs("apply")


PROPS = {
    "C01": dict(module="T2N.Props.C01", streams=_apply_all() + ["ds"] + all_langs("pfx"), oracles=["c01"]),
    "C02": dict(module="T2N.Props.C02", streams=["script", "tok", "text:en", "text:fr", "text:de"], oracles=["c02"]),
    "C03": dict(module="T2N.Props.C03", streams=["ds", "script", "tok", "val:en", "val:it"], oracles=["c03"]),
    "C04": dict(module="T2N.Props.C04", streams=_apply_all(), oracles=["c04"]),
    "C05": dict(module="T2N.Props.C05", streams=_apply_all() + ["script"], oracles=["c05"]),
    "C06": dict(module="T2N.Props.C06", streams=["script"] + all_langs("scan") + all_langs("fmt"), oracles=["c06"]),
    "C07": dict(module="T2N.Props.C07", streams=_apply_all() + ["ds", "script", "scan:en", "scan:nl", "text:en", "text:fr"] + all_langs("pfx"), oracles=["c07"]),
    "C08": dict(module="T2N.Props.C08", streams=_apply_all(), oracles=["c08"]),
    "C09": dict(module="T2N.Props.C09", streams=["script", "scan:en", "scan:fr"], oracles=["c09"]),
    "C10": dict(module="T2N.Props.C10", streams=["script", "annot", "text:fr", "text:en"], oracles=["c10"]),
    "C11": dict(module="T2N.Props.C11", streams=all_langs("scan") + ["text:en", "text:de"], oracles=["c11"]),
    "C12": dict(module="T2N.Props.C12", streams=["ds", "pfx:en", "pfx:fr", "pfx:de"], oracles=["c12"]),
    "C13": dict(module="T2N.Props.C13", streams=["lookup"] + all_langs("applyface") + all_langs("textface"), oracles=["c13"]),
    "C14": dict(module="T2N.Props.C14", streams=["text:nl", "text:it"], oracles=["c14"]),
    "C15": dict(module="T2N.Props.C15", streams=["script", "scan:en", "scan:de", "scan:fr", "scan:es", "scan:pt"], oracles=["c15"]),
    "C16": dict(module="T2N.Props.C16", streams=_apply_all(), oracles=["c16"]),
    "C17": dict(module="T2N.Props.C17", streams=["tok", "annot", "text:en", "val:en", "val:fr"], oracles=["c17"]),
    "C18": dict(module="T2N.Props.C18", streams=["annot", "text:en", "scan:en"], oracles=["c18"]),
}
