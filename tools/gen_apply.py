"""S-apply request generator: every word x every state for one language (see DESIGN.md §2.5)."""
import sys
sys.path.insert(0, __file__.rsplit("/", 1)[0])
from t2nlib import esc, SplitMix64
import vocab


def gen(lang, tier, seed, out, target="", sample=None, only_fmt=False):
    rng = SplitMix64(seed)
    words = vocab.words_for(lang, SplitMix64(seed ^ 0xABCDEF))
    states = vocab.states_for(lang, tier)
    code = target + lang
    n = 0
    for w in ([] if only_fmt else words):
        ew = esc(w)
        out.write("morph\t%s\t%s\n" % (code, ew))
        out.write("sep\t%s\t%s\n" % (code, ew))
        out.write("link\t%s\t%s\n" % (code, ew))
        n += 3
        for st in states:
            if sample is not None and not rng.chance(sample[0], sample[1]):
                continue
            out.write("apply\t%s\t%s\t%s\n" % (code, ew, st))
            n += 1
            if st.endswith("|0|0|-") or rng.chance(1, 8):
                out.write("applydec\t%s\t%s\t%s\n" % (code, ew, st))
                n += 1
    for w in ([] if only_fmt else vocab.affixed(lang)):
        ew = esc(w)
        out.write("morph\t%s\t%s\n" % (code, ew))
        out.write("sep\t%s\t%s\n" % (code, ew))
        out.write("link\t%s\t%s\n" % (code, ew))
        n += 3
        for st in ("|0|0|0|-", "1|0|0|0|-", "21|0|0|0|-", "100|0|0|0|-"):
            out.write("apply\t%s\t%s\t%s\n" % (code, ew, st))
            n += 1
    for st in states:
        if not st.startswith("|0|"):
            out.write("fmt\t%s\t%s\n" % (code, st))
            n += 1
            if only_fmt or rng.chance(1, 4):
                out.write("fmtdec\t%s\t%s\t%s\n" % (code, st, rng.choice(states)))
                n += 1
    return n, len(words), len(states)


if __name__ == "__main__":
    lang = sys.argv[1]
    tier = sys.argv[2] if len(sys.argv) > 2 else "quick"
    seed = int(sys.argv[3]) if len(sys.argv) > 3 else 1
    n = gen(lang, tier, seed, sys.stdout)
    sys.stderr.write("generated %d requests (%d words x %d states)\n" % n)
