"""Write the prompt files for a round of mutation sub-agents: python3 tools/mut_prompt.py <round-name> <batch-no> C03 C10 …
Each agent gets ONLY a property text, its own scratch worktree /tmp/mut/<pid> and the list of what the testing covers."""
import json, glob, subprocess, sys
rnd, batch, pids = sys.argv[1], sys.argv[2], sys.argv[3:]
props = {json.loads(l)['id']: json.loads(l) for l in open('/verif/properties.jsonl')}
used = []
for p in sorted(glob.glob('/verif/seeded/mut-*/meta.json')):
    used.append("- " + json.load(open(p))['what'][:70])
cov = open('/verif/tools/COVERED.txt').read()
subprocess.run("mkdir -p /tmp/mut", shell=True)
for pid in pids:
    wt = "/tmp/mut/%s" % pid
    subprocess.run("git -C /repo worktree add --detach %s HEAD -f >/dev/null 2>&1" % wt, shell=True)
    pr = props[pid]
    txt = f"""You are helping test a verification setup by producing ONE realistic, subtle, property-breaking change ("mutation") to a Rust library. You work ONLY inside your own scratch git worktree {wt} (a checkout of the library text2num-rs: recognises numbers spelled out in seven natural languages and rewrites them as digits). Do not look at or touch any other directory (nothing outside {wt}; never /repo or /verif). No network: use `cargo test --offline`, `cargo build --offline`, `cargo run --offline`. Do NOT use `git stash`; to test the unmodified code use `git diff -- src > {wt}/cur.diff; git apply -R {wt}/cur.diff; …; git apply {wt}/cur.diff`. Do not leave files (profraw, logs) outside {wt}. IMPORTANT: keep every message you write SHORT (a few lines); never paste file contents or long outputs into your messages; put scratch programs in files and run them; read source files in pieces.

The property the library is supposed to satisfy (this is ALL the context you get):

ID: {pid}
Title: {pr['title']}
Statement: {pr['statement']}
Quantifier: {pr['quantifier']['text']}
Why the existing tests cannot settle it: {pr['why_tests_cant']}

This is the {rnd} ADVERSARIAL round. On every change the maintainers run a differential tester (TWO optimised builds: one with debug assertions and overflow checks on, one plain `--release` without them) against an independent executable reference model plus per-property oracles. Earlier adversarial rounds found gaps that were all closed; several of your predecessors concluded, after mutant sweeps, that no escaping change is left — prove them wrong if you can. ALL of the following is covered — do not rely on it:
{cov}Your goal: a change that breaks the property as stated (failing inputs INSIDE the property's quantifier bounds, observable in an optimised build) that all of this is still UNLIKELY to hit.
Requirements:
1. Read the source (src/) and tests. 2. ONE small plausible change (a few lines; a slip, "clean-up" or "optimisation" a maintainer could commit); crate compiles without new warnings; the ENTIRE existing suite still passes (`cargo test --offline`: 136 unit + 7 doc tests). Do not edit tests. Earlier rounds already used (do not reuse):
{chr(10).join(used)}
3. A standalone demo crate in {wt}/demo (Cargo.toml with empty `[workspace]` table and `text2num = {{ path = ".." }}`; src/main.rs), public API only, prints PASS/exit 0 on the unmodified library and FAIL (input, expected, observed)/exit 1 with your change — ALSO with `cargo run --release`; verify both directions.
4. Leave the tree MODIFIED; write `git diff -- src > patch.diff` in {wt}.
Final answer (SHORT text, under 350 words): the change, one or two failing inputs with expected/observed, how rare the family is, why the described testing would miss it, confirmation of suite pass + demo both directions. If after serious effort you find NO such change, say so and list briefly what you tried."""
    open("/tmp/mut/prompt%s_%s.txt" % (batch, pid), "w").write(txt)
print("ok", pids)
